"""Standard-model check of a counter-model of an ALGEBRAIC obligation (aggregator contracts).

An aggregator obligation compares two terms over *uninterpreted* operators (matmul, svd_U, QPGen, ...).  A z3 model of
`hyps and not goal` may interpret those operators in a way no real library does (e.g. after a harmless algebraic rewrite
of the code: x / n  vs  x * (1 / n)).  Such a counter-model is not a counterexample.  This module evaluates the terms under
the STANDARD interpretation of every operator (numpy, float64) on sampled concrete inputs:

  * some admissible sample on which the code term and the spec term differ  ->  'candidate' with that concrete input
    (the driver then runs the REAL aggregator on it: only a disagreement of the real code with the spec value is reported
    as a violation with a failing input);
  * the two sides agree on every admissible sample (>= MIN_ADMISSIBLE, over several input families incl. degenerate and
    boundary ones)  ->  'spurious': the obligation is reported UNDECIDED (never a violation, never counted as discharged);
  * an operator without a standard interpretation here, no admissible sample, ...  ->  'unknown': the refutation stands
    as before (VIOLATION ... no-failing-input-found if the bounded arm finds no input either).

Nothing here can turn an obligation into 'discharged'."""
from __future__ import annotations

import itertools
import math
import random
from fractions import Fraction

import numpy as np
import z3

ARR_SHAPES = {}   # name of an Arr constant -> list of shape entries (python ints / z3 Int terms); filled by aten.ATen
FUNC_SHAPES = {}  # name of a sidecar contract function (fresh symbol) -> shape of its values
TERM_SHAPES = {}  # z3 ast id of a composite Arr term -> shape entries (for sub-terms without a standard interpretation)
MIN_ADMISSIBLE = 40
MAX_SAMPLES = 400
EPS64 = float(np.finfo(np.float64).eps)


class Unknown(Exception):
    pass


class Inadmissible(Exception):
    pass


# ----------------------------------------------------------------------------- helpers


def _arr(x):
    return np.asarray(x, dtype=np.float64) if not (isinstance(x, np.ndarray) and x.dtype in (np.int64, np.bool_)) else x


def _f(x):
    if isinstance(x, np.ndarray):
        if x.size != 1:
            raise Unknown("scalar expected")
        return float(x.reshape(-1)[0])
    return float(x)


def _i(x):
    if isinstance(x, np.ndarray):
        return int(x.reshape(-1)[0])
    if isinstance(x, float) and x != int(x):
        raise Unknown("integer expected")
    return int(x)


def _none(x):
    return isinstance(x, str) and x == "None"


def close(a, b, rtol=1e-6):
    a, b = np.asarray(a), np.asarray(b)
    if a.shape != b.shape:
        return False
    if a.dtype == np.bool_ or b.dtype == np.bool_:
        return bool(np.array_equal(a.astype(bool), b.astype(bool)))
    fa, fb = np.isfinite(a), np.isfinite(b)
    if not np.array_equal(fa, fb):
        return False
    if not (fa.all()):
        if not np.array_equal(np.isnan(a), np.isnan(b)) or not np.array_equal(np.sign(a[~fa & ~np.isnan(a)]), np.sign(b[~fb & ~np.isnan(b)])):
            return False
        a, b = np.where(fa, a, 0.0), np.where(fb, b, 0.0)
    scale = max(float(np.max(np.abs(a))) if a.size else 0.0, float(np.max(np.abs(b))) if b.size else 0.0)
    return bool(np.all(np.abs(a - b) <= rtol * scale + 1e-300))


def _qp(P, q, G, h):
    """argmin 1/2 x'Px + q'x  s.t.  Gx <= h   by active-set enumeration (exact for the small sizes sampled here)."""
    P, q, G, h = (np.asarray(v, dtype=np.float64) for v in (P, q, G, h))
    n = P.shape[0]
    if n > 6 or G.shape[0] > 8:
        raise Unknown("QP too large for enumeration")
    best, bestv = None, None
    k = G.shape[0]
    for r in range(0, min(n, k) + 1):
        for act in itertools.combinations(range(k), r):
            A = G[list(act)] if act else np.zeros((0, n))
            K = np.block([[P, A.T], [A, np.zeros((len(act), len(act)))]])
            rhs = np.concatenate([-q, h[list(act)] if act else np.zeros(0)])
            try:
                sol = np.linalg.lstsq(K, rhs, rcond=None)[0]
            except np.linalg.LinAlgError:
                continue
            if not np.allclose(K @ sol, rhs, rtol=1e-9, atol=1e-9 * (1 + np.abs(rhs).max(initial=0))):
                continue
            x, lam = sol[:n], sol[n:]
            if np.any(lam < -1e-9 * (1 + np.abs(lam).max(initial=0))):
                continue
            if np.any(G @ x - h > 1e-9 * (1 + np.abs(h).max(initial=0) + np.abs(G @ x).max(initial=0))):
                continue
            v = 0.5 * x @ P @ x + q @ x
            if bestv is None or v < bestv - 1e-12 * (1 + abs(bestv)):
                best, bestv = x, v
    if best is None:
        raise Unknown("QP: no KKT point found")
    return best


def _svd(t, full):
    u, s, vh = np.linalg.svd(np.asarray(t, dtype=np.float64), full_matrices=bool(full))
    return u, s, vh


def _rng(kind, shape, seed):
    r = np.random.default_rng(1000 + int(seed))
    if kind == "randn":
        return r.standard_normal(shape)
    if kind == "rand":
        return r.random(shape)
    return r.permutation(int(shape[0])).astype(np.int64)


def _index(idx):
    idx = np.asarray(idx)
    return idx if idx.dtype == np.bool_ else idx.astype(np.int64)   # a boolean tensor used as an index is a MASK


def _slice(n, lo, hi):
    lo = None if _none(lo) else _i(lo)
    hi = None if _none(hi) else _i(hi)
    return slice(lo, hi)


def _topk(t, k, largest, want):
    t = np.asarray(t, dtype=np.float64)
    k = _i(k)
    order = np.argsort(-t if largest else t, axis=-1, kind="stable")[..., :k]
    return np.take_along_axis(t, order, axis=-1) if want == "vals" else order.astype(np.int64)


def _topk_dim(t, k, largest, d, want):
    t = np.asarray(t, dtype=np.float64)
    k, d = _i(k), _i(d)
    order = np.take(np.argsort(-t if largest else t, axis=d, kind="stable"), np.arange(k), axis=d)
    return np.take_along_axis(t, order, axis=d) if want == "vals" else order.astype(np.int64)


def _sort(t, dim, desc, want):
    t = np.asarray(t, dtype=np.float64)
    order = np.argsort(-t if desc else t, axis=_i(dim), kind="stable")
    return np.take_along_axis(t, order, axis=_i(dim)) if want == "vals" else order.astype(np.int64)


def _normalize(t, p, dim, eps):
    t = np.asarray(t, dtype=np.float64)
    nrm = np.linalg.norm(t, ord=_f(p), axis=_i(dim), keepdims=True)
    return t / np.maximum(nrm, _f(eps))


def _softmax(t, dim):
    t = np.asarray(t, dtype=np.float64)
    d = _i(dim)
    e = np.exp(t - t.max(axis=d, keepdims=True))
    return e / e.sum(axis=d, keepdims=True)


def _cdist(a, b, p, mode):
    a, b = np.asarray(a, dtype=np.float64), np.asarray(b, dtype=np.float64)
    if _f(p) != 2.0:
        raise Unknown("cdist p")
    d = a[:, None, :] - b[None, :, :]
    exact = np.sqrt((d * d).sum(-1))
    if isinstance(mode, str) and "donot_use_mm" in mode:
        return exact
    # the matmul-based formula (used by torch for > 25 rows): |a|^2 + |b|^2 - 2ab, clamped
    if a.shape[0] > 25 or b.shape[0] > 25 or (isinstance(mode, str) and mode == "use_mm_for_euclid_dist"):
        sq = (a * a).sum(1)[:, None] + (b * b).sum(1)[None, :] - 2 * a @ b.T
        return np.sqrt(np.clip(sq, 0, None))
    return exact


def _clamp(t, lo, hi):
    t = np.asarray(t, dtype=np.float64)
    return np.clip(t, None if _none(lo) else _f(lo), None if _none(hi) else _f(hi))


def _cast(t, dt):
    t = np.asarray(t)
    if dt in ("int64",):
        return np.trunc(t).astype(np.int64)
    if dt in ("bool",):
        return t != 0
    return t.astype(np.float64)   # every float dtype is the reals here (assumption shared with the deductive arm)


def _setitem(t, *rest):
    t = np.array(t, dtype=np.float64, copy=True)
    *idx, v = rest
    if len(idx) == 1:
        t[_i(idx[0])] = v
    elif len(idx) == 3 and isinstance(idx[0], str) and idx[0] == "slice":
        t[_slice(t.shape[0], idx[1], idx[2])] = v
    elif len(idx) == 2:
        t[_i(idx[0]), _i(idx[1])] = v
    else:
        raise Unknown("setitem index form")
    return t


OPS = {
    "matmul": lambda a, b: _arr(a) @ _arr(b), "vecmat": lambda a, b: _arr(a) @ _arr(b), "matvec": lambda a, b: _arr(a) @ _arr(b),
    "dot": lambda a, b: np.asarray(_arr(a) @ _arr(b)),
    "eadd": lambda a, b: _arr(a) + _arr(b), "esub": lambda a, b: _arr(a) - _arr(b), "emul": lambda a, b: _arr(a) * _arr(b),
    "ediv": lambda a, b: _arr(a) / _arr(b), "epow": lambda a, b: _arr(a) ** _arr(b),
    "add": lambda a, b: _arr(a) + _arr(b), "sub": lambda a, b: _arr(a) - _arr(b), "mul": lambda a, b: _arr(a) * _arr(b),
    "div": lambda a, b: _arr(a) / _arr(b), "pow": lambda a, b: _arr(a) ** _arr(b),
    "smul": lambda c, x: _f(c) * _arr(x), "sadd": lambda c, x: _f(c) + _arr(x), "rsub": lambda c, x: _f(c) - _arr(x),
    "rdiv": lambda c, x: _f(c) / _arr(x), "sdiv": lambda x, c: _arr(x) / _f(c), "spow": lambda x, c: _arr(x) ** _f(c),
    "cmp_lt": lambda a, b: _arr(a) < _arr(b), "cmp_le": lambda a, b: _arr(a) <= _arr(b), "cmp_gt": lambda a, b: _arr(a) > _arr(b),
    "cmp_ge": lambda a, b: _arr(a) >= _arr(b), "cmp_eq": lambda a, b: _arr(a) == _arr(b), "cmp_ne": lambda a, b: _arr(a) != _arr(b),
    "row": lambda t, i: _arr(t)[_i(i)], "at": lambda t, i: _arr(t)[_i(i)],
    "take": lambda t, idx: _arr(t)[_index(idx)],
    "takecols": lambda t, idx: _arr(t)[:, _index(idx)],
    "slice0": lambda t, lo, hi: _arr(t)[_slice(0, lo, hi)], "colslice": lambda t, lo, hi: _arr(t)[:, _slice(0, lo, hi)],
    "col": lambda t, i: _arr(t)[:, _i(i)], "entry": lambda t, i, j: np.asarray(_arr(t)[_i(i), _i(j)]),
    "narrow": lambda t, d, s, n: np.take(_arr(t), np.arange(_i(s), _i(s) + _i(n)), axis=_i(d)),
    "transpose": lambda t: _arr(t).T, "diagm": lambda t: np.diag(_arr(t)), "diagv": lambda t: np.diag(_arr(t)),
    "abs": lambda t: np.abs(_arr(t)), "sqrt": lambda t: np.sqrt(_arr(t)) if isinstance(t, np.ndarray) else math.sqrt(t) if t >= 0 else float("nan"),
    "exp": lambda t: np.exp(_arr(t)), "log": lambda t: np.log(_arr(t)), "sign": lambda t: np.sign(_arr(t)), "neg": lambda t: -_arr(t),
    "square": lambda t: _arr(t) ** 2, "relu": lambda t: np.maximum(_arr(t), 0), "float": lambda t: np.asarray(t).astype(np.float64),
    "double": lambda t: np.asarray(t).astype(np.float64), "flatten": lambda t: _arr(t).reshape(-1), "tanh": lambda t: np.tanh(_arr(t)),
    "sigmoid": lambda t: 1 / (1 + np.exp(-_arr(t))), "clamp": _clamp,
    "isfinite": lambda t: np.isfinite(_arr(t).astype(np.float64)), "all": lambda t: np.asarray(np.all(t)), "any": lambda t: np.asarray(np.any(t)),
    "any_dim": lambda t, d: np.any(t, axis=_i(d)),
    "sum_all": lambda t: np.asarray(np.sum(_arr(t).astype(np.float64))), "sum_all_r": lambda t: float(np.sum(_arr(t).astype(np.float64))),
    "mean_all": lambda t: np.asarray(np.mean(_arr(t))), "mean_all_r": lambda t: float(np.mean(_arr(t))),
    "sum_dim": lambda t, d: np.sum(_arr(t).astype(np.float64), axis=_i(d)), "mean_dim": lambda t, d: np.mean(_arr(t), axis=_i(d)),
    "norm_all": lambda t: np.asarray(np.linalg.norm(_arr(t).reshape(-1))), "norm_all_r": lambda t: float(np.linalg.norm(_arr(t).reshape(-1))),
    "rownorms": lambda t: np.linalg.norm(_arr(t), axis=1),
    "max_all": lambda t: np.asarray(np.max(_arr(t))), "max_all_r": lambda t: float(np.max(_arr(t))),
    "min_all": lambda t: np.asarray(np.min(_arr(t))), "min_all_r": lambda t: float(np.min(_arr(t))),
    "max_dim_vals": lambda t, d: np.max(_arr(t), axis=_i(d)), "max_dim_idx": lambda t, d: np.argmax(_arr(t), axis=_i(d)).astype(np.int64),
    "min_dim_vals": lambda t, d: np.min(_arr(t), axis=_i(d)), "min_dim_idx": lambda t, d: np.argmin(_arr(t), axis=_i(d)).astype(np.int64),
    "zeros": lambda *s: np.zeros([_i(x) for x in s]), "ones": lambda *s: np.ones([_i(x) for x in s]),
    "full": lambda *s: np.full([_i(x) for x in s[:-1]], _f(s[-1])), "eye": lambda n: np.eye(_i(n)),
    "np_array": lambda *v: np.asarray([_f(x) for x in v]),
    "unsqueeze0": lambda t: _arr(t)[None, :], "unsqueeze1": lambda t: _arr(t)[:, None], "squeeze": lambda t: np.squeeze(_arr(t)),
    "reshape": lambda t, *s: _arr(t).reshape([_i(x) for x in s]), "cast": _cast,
    "svd_U": lambda t, fm: _svd(t, fm)[0], "svd_S": lambda t: _svd(t, False)[1], "svd_Vh": lambda t, fm: _svd(t, fm)[2],
    "svd_V": lambda t: _svd(t, False)[2].T, "pinv": lambda t: np.linalg.pinv(_arr(t)),
    "eigh_vals": lambda t, u: np.linalg.eigh(_arr(t), UPLO=u if isinstance(u, str) else "L")[0],
    "eigh_vecs": lambda t, u: np.linalg.eigh(_arr(t), UPLO=u if isinstance(u, str) else "L")[1],
    "cdist": _cdist,
    "matnorm2": lambda t: np.asarray(np.linalg.norm(_arr(t), 2)), "matnorm2_r": lambda t: float(np.linalg.norm(_arr(t), 2)),
    "topk_vals": lambda t, k, lg: _topk(t, k, bool(lg), "vals"), "topk_idx": lambda t, k, lg: _topk(t, k, bool(lg), "idx"),
    "topk_vals_dim": lambda t, k, lg, d: _topk_dim(t, k, bool(lg), d, "vals"), "topk_idx_dim": lambda t, k, lg, d: _topk_dim(t, k, bool(lg), d, "idx"),
    "sort_vals": lambda t, d, ds: _sort(t, d, bool(ds), "vals"), "sort_idx": lambda t, d, ds: _sort(t, d, bool(ds), "idx"),
    "argmin": lambda t: np.asarray(np.argmin(_arr(t))), "argmin_i": lambda t: int(np.argmin(_arr(t))),
    "one_hot": lambda idx, n: np.eye(_i(n), dtype=np.int64)[np.asarray(idx).astype(np.int64)],
    "softmax": _softmax, "normalize": _normalize, "nan_to_num": lambda t, v: np.nan_to_num(_arr(t), nan=_f(v), posinf=np.finfo(np.float64).max, neginf=np.finfo(np.float64).min),
    "stack": lambda *xs: np.stack([_arr(x) for x in xs]),
    "randn": lambda *a: _rng("randn", [_i(x) for x in a[:-1]], a[-1]), "rand": lambda *a: _rng("rand", [_i(x) for x in a[:-1]], a[-1]),
    "randperm": lambda n, d: _rng("randperm", [_i(n)], d),
    "QPGen": _qp, "pysum": lambda t: np.asarray(np.sum(t)), "count_true": lambda t: int(np.sum(np.asarray(t).astype(bool))),
    "min": lambda a, b: min(_i(a), _i(b)), "finfo_eps": lambda: EPS64, "scalar": lambda r: np.asarray(_f(r)),
    "item": lambda t: _f(t), "item_i": lambda t: _i(t), "truth": lambda t: bool(np.asarray(t).reshape(-1)[0]) if np.asarray(t).size == 1 else (_ for _ in ()).throw(Unknown("truth of non-scalar")),
    "setitem": _setitem,
    "float64": lambda: "float64", "float32": lambda: "float32", "int64": lambda: "int64", "bool_dtype": lambda: "bool", "default_dtype": lambda: "float32",
    "promote": lambda a, b: a if a == b else ("float64" if "float64" in (a, b) else a if b in ("int64", "bool") else b),
}
LAMBDA_OPS = {"stack_lam", "rows_lam"}


# ----------------------------------------------------------------------------- evaluation of z3 terms


def ev(e, env, memo=None):
    memo = {} if memo is None else memo
    key = e.get_id()
    if key in memo:
        return memo[key]
    r = _ev(e, env, memo)
    memo[key] = r
    return r


def _num(e):
    if z3.is_int_value(e):
        return e.as_long()
    if z3.is_rational_value(e):
        return float(Fraction(e.numerator_as_long(), e.denominator_as_long()))
    if z3.is_algebraic_value(e):
        return float(e.approx(20).as_fraction())
    return None


def _ev(e, env, memo):
    if z3.is_quantifier(e):
        raise Unknown("quantifier")
    v = _num(e)
    if v is not None:
        return v
    if z3.is_true(e):
        return True
    if z3.is_false(e):
        return False
    if z3.is_string_value(e):
        return e.as_string()
    if not z3.is_app(e):
        raise Unknown("non-application")
    d = e.decl()
    k = d.kind()
    ch = e.children()
    if k == z3.Z3_OP_UNINTERPRETED:
        name = d.name()
        if not ch:
            if name in env:
                return env[name]
            if name in OPS:
                return OPS[name]()
            raise Unknown(f"free constant {name}")
        if name in LAMBDA_OPS or name in ("stack_lam_I_A", "rows_lam_I_A"):
            n = _i(ev(ch[0], env, memo))
            rows = []
            for i in range(n):
                env2 = dict(env)
                env2["I0!canon"] = i
                rows.append(_arr(ev(ch[1], env2, {})))
            if not rows:
                raise Unknown("empty lambda stack")
            return np.stack(rows)
        if name not in OPS:
            # values.U mangles a name with the first letters of its argument sorts when one name is used at several
            # signatures (clamp_A_R_R, zeros_I, ...): same operator
            import re
            mm = re.match(r"^(.*?)((?:_[A-Z])+)$", name)
            if mm and len(mm.group(2)) // 2 == len(ch) and mm.group(1) in OPS:
                name = mm.group(1)
            elif e.sort().name() == "Arr" and (e.get_id() in TERM_SHAPES or name in FUNC_SHAPES) and env.get("__opaque_ok__"):
                # a sub-term without standard interpretation (solver output, loop-contract function, ...): an ARBITRARY value
                # of the right shape, the same for every occurrence of the same term.  Samples using it can only support
                # "the two sides agree whatever this sub-term is", never a counterexample.
                shp = [x if isinstance(x, int) else _i(ev(x, env, memo)) for x in (TERM_SHAPES.get(e.get_id()) or FUNC_SHAPES[name])]
                env["__opaque_used__"] = True
                # the same value for the same function applied to numerically equal arguments (W(it) = W(m) when it = m)
                import zlib
                h = (zlib.crc32(repr(_fingerprint(e, env, memo)).encode()) ^ int(env.get("__opaque_seed__", 0))) % (2 ** 32)
                return np.random.default_rng(h).standard_normal(shp)
            else:
                raise Unknown(f"operator {name}")
        args = [ev(c, env, memo) for c in ch]
        try:
            with np.errstate(all="ignore"):
                return OPS[name](*args)
        except Unknown:
            raise
        except (ValueError, IndexError, TypeError, np.linalg.LinAlgError, ZeroDivisionError, OverflowError) as ex:
            raise Inadmissible(f"{name}: {type(ex).__name__}: {ex}")
    if k == z3.Z3_OP_AND:
        return all(_b(ev(c, env, memo)) for c in ch)
    if k == z3.Z3_OP_OR:
        # an unknown disjunct is tolerated when another one is true
        unk = None
        for c in ch:
            try:
                if _b(ev(c, env, memo)):
                    return True
            except Unknown as ex:
                unk = ex
        if unk is not None:
            raise unk
        return False
    if k == z3.Z3_OP_NOT:
        return not _b(ev(ch[0], env, memo))
    if k == z3.Z3_OP_IMPLIES:
        return (not _b(ev(ch[0], env, memo))) or _b(ev(ch[1], env, memo))
    if k == z3.Z3_OP_ITE:
        return ev(ch[1], env, memo) if _b(ev(ch[0], env, memo)) else ev(ch[2], env, memo)
    if k in (z3.Z3_OP_EQ, z3.Z3_OP_IFF):
        a, b = ev(ch[0], env, memo), ev(ch[1], env, memo)
        return _eq(a, b, env)
    if k == z3.Z3_OP_DISTINCT:
        vals = [ev(c, env, memo) for c in ch]
        return all(not _eq(a, b, env) for a, b in itertools.combinations(vals, 2))
    if k in (z3.Z3_OP_LE, z3.Z3_OP_LT, z3.Z3_OP_GE, z3.Z3_OP_GT):
        a, b = _sc(ev(ch[0], env, memo)), _sc(ev(ch[1], env, memo))
        _note_cmp(env, ch[0], ch[1], a, b)
        if math.isnan(a) or math.isnan(b):
            return False
        return {z3.Z3_OP_LE: a <= b, z3.Z3_OP_LT: a < b, z3.Z3_OP_GE: a >= b, z3.Z3_OP_GT: a > b}[k]
    if k == z3.Z3_OP_ADD:
        return sum(_sc(ev(c, env, memo)) for c in ch)
    if k == z3.Z3_OP_MUL:
        r = 1
        for c in ch:
            r = r * _sc(ev(c, env, memo))
        return r
    if k == z3.Z3_OP_SUB:
        vals = [_sc(ev(c, env, memo)) for c in ch]
        r = vals[0]
        for x in vals[1:]:
            r = r - x
        return r
    if k == z3.Z3_OP_UMINUS:
        return -_sc(ev(ch[0], env, memo))
    if k == z3.Z3_OP_DIV:
        a, b = _sc(ev(ch[0], env, memo)), _sc(ev(ch[1], env, memo))
        if b == 0:
            return float("inf") if a > 0 else float("-inf") if a < 0 else float("nan")
        return a / b
    if k == z3.Z3_OP_IDIV:
        a, b = _i(ev(ch[0], env, memo)), _i(ev(ch[1], env, memo))
        if b == 0:
            raise Inadmissible("div by zero")
        q = a // b if b > 0 else -(a // -b)
        return q
    if k == z3.Z3_OP_MOD:
        a, b = _i(ev(ch[0], env, memo)), _i(ev(ch[1], env, memo))
        if b == 0:
            raise Inadmissible("mod by zero")
        return a % abs(b)
    if k == z3.Z3_OP_TO_REAL:
        return float(_sc(ev(ch[0], env, memo)))
    if k == z3.Z3_OP_TO_INT:
        return math.floor(_sc(ev(ch[0], env, memo)))
    if k == z3.Z3_OP_POWER:
        return _sc(ev(ch[0], env, memo)) ** _sc(ev(ch[1], env, memo))
    raise Unknown(f"z3 operator {d.name()}")


def _fingerprint(e, env, memo):
    """numeric identity of a term: the (rounded) value where it can be evaluated, the operator applied to the fingerprints of
    its arguments otherwise - two differently written but numerically equal conic problems get the same arbitrary solution"""
    if z3.is_app(e) and e.num_args() > 0 and e.decl().kind() == z3.Z3_OP_UNINTERPRETED and e.decl().name() not in OPS:
        return (e.decl().name(), tuple(_fingerprint(c, env, memo) for c in e.children()))
    try:
        saved = env.get("__opaque_ok__")
        env["__opaque_ok__"] = False
        try:
            v = ev(e, env, {})
        finally:
            env["__opaque_ok__"] = saved
        if isinstance(v, np.ndarray):
            a = np.asarray(v, dtype=np.float64)
            scale = float(np.max(np.abs(a))) if a.size else 0.0
            q = np.round(a / scale, 7) if scale > 0 else a
            return ("arr", a.shape, float(f"{scale:.6e}"), tuple(q.reshape(-1).tolist()))
        if isinstance(v, float):
            return float(f"{v:.7e}")
        return v
    except (Unknown, Inadmissible):
        if z3.is_app(e) and e.num_args() > 0:
            return (e.decl().name(), tuple(_fingerprint(c, env, memo) for c in e.children()))
        return e.sexpr()


def _b(x):
    if isinstance(x, (bool, np.bool_)):
        return bool(x)
    if isinstance(x, np.ndarray) and x.size == 1:
        return bool(x.reshape(-1)[0])
    raise Unknown("boolean expected")


def _sc(x):
    if isinstance(x, (bool, np.bool_)):
        raise Unknown("number expected")
    if isinstance(x, np.ndarray):
        return _f(x)
    return x


def _eq(a, b, env):
    if isinstance(a, str) or isinstance(b, str):
        return a == b
    if isinstance(a, (bool, np.bool_)) or isinstance(b, (bool, np.bool_)):
        return bool(a) == bool(b)
    if isinstance(a, np.ndarray) or isinstance(b, np.ndarray):
        return close(a, b)
    if isinstance(a, int) and isinstance(b, int):
        return a == b
    return close(np.asarray(float(a)), np.asarray(float(b)), rtol=1e-9)


def _note_cmp(env, ea, eb, a, b):
    """remember comparisons of a free real PARAMETER with a computed value: boundary samples set parameter := value"""
    notes = env.get("__cmp__")
    if notes is None:
        return
    for p, other in ((ea, b), (eb, a)):
        if z3.is_const(p) and p.decl().kind() == z3.Z3_OP_UNINTERPRETED and z3.is_real(p) and isinstance(other, float) and math.isfinite(other):
            notes.append((p.decl().name(), other))


# ----------------------------------------------------------------------------- sampling


def free_consts(exprs):
    seen, out = set(), {}
    stack = list(exprs)
    while stack:
        e = stack.pop()
        if e.get_id() in seen:
            continue
        seen.add(e.get_id())
        if z3.is_quantifier(e):
            continue
        if z3.is_app(e):
            if e.num_args() == 0 and e.decl().kind() == z3.Z3_OP_UNINTERPRETED:
                out[e.decl().name()] = e
            stack.extend(e.children())
    return out


def _parse_model_value(s):
    s = s.strip()
    if s in ("True", "False"):
        return s == "True"
    try:
        if "/" in s:
            return float(Fraction(s))
        if s.endswith("?"):
            return float(s[:-1])
        return int(s) if s.lstrip("-").isdigit() else float(s)
    except (ValueError, ZeroDivisionError):
        return None


def _int_assignments(hyps, ints, model, limit=40):
    """assignments of the Int/Bool constants satisfying the purely arithmetic ground hypotheses (z3), small values first"""
    names = sorted(ints)
    sel = []
    for h in hyps:
        if z3.is_quantifier(h):
            continue
        fc = free_consts([h])
        if fc and all(z3.is_int(c) or z3.is_bool(c) for c in fc.values()) and not _has_uf(h):
            sel.append(h)
    out = []
    for hi in (3, 4, 6, 9, 30):
        s = z3.Solver()
        s.set("timeout", 2000)
        for h in sel:
            s.add(h)
        for n in names:
            s.add(ints[n] >= 0, ints[n] <= hi)
        seen = 0
        while len(out) < limit and seen < limit and s.check() == z3.sat:
            m = s.model()
            a = {n: (m.eval(ints[n], model_completion=True).as_long()) for n in names}
            if a not in out:
                out.append(a)
            seen += 1
            s.add(z3.Or([ints[n] != a[n] for n in names]) if names else z3.BoolVal(False))
        if len(out) >= limit // 2:
            break
    random.Random(7).shuffle(out)
    # generic shapes first: degenerate dimensions (0, 1) hide most differences
    out.sort(key=lambda a: -sum(1 for v in a.values() if v >= 2))
    return out


def _has_uf(e):
    stack, seen = [e], set()
    while stack:
        x = stack.pop()
        if x.get_id() in seen:
            continue
        seen.add(x.get_id())
        if z3.is_app(x):
            if x.num_args() > 0 and x.decl().kind() == z3.Z3_OP_UNINTERPRETED:
                return True
            stack.extend(x.children())
    return False


FAMILIES = ["gauss", "ints", "scaled_small", "scaled_big", "rank1", "duprows", "zero", "zero_row", "nonneg", "conflict", "tiny",
            "subtiny", "huge", "rowscales", "tinyrow", "offset", "bigoffset"]


def _matrix(rng, shape, fam):
    shape = [int(s) for s in shape]
    if any(s < 0 for s in shape):
        raise Inadmissible("negative dimension")
    x = rng.standard_normal(shape)
    if fam == "ints":
        x = rng.integers(-3, 4, size=shape).astype(np.float64)
    elif fam == "scaled_small":
        x = x * 10.0 ** rng.integers(-9, -2)
    elif fam == "tiny":
        x = x * 1e-13
    elif fam == "subtiny":
        x = x * 10.0 ** rng.integers(-40, -15)
    elif fam == "huge":
        x = x * 10.0 ** rng.integers(10, 30)
    elif fam == "rowscales" and len(shape) == 2:
        x = x * (10.0 ** rng.integers(-14, 9, size=(shape[0], 1)))
    elif fam == "tinyrow" and len(shape) == 2 and shape[0] >= 1:
        x[rng.integers(0, shape[0])] *= 10.0 ** rng.integers(-30, -12)
    elif fam == "offset":
        x = x + 10.0 ** rng.integers(2, 6)
    elif fam == "bigoffset":
        x = x + 1e8 * (1.0 + rng.random(shape[-1:]))   # a common component dwarfing the mutual distances of the rows
    elif fam == "scaled_big":
        x = x * 10.0 ** rng.integers(3, 9)
    elif fam == "rank1" and len(shape) == 2:
        x = np.outer(rng.standard_normal(shape[0]), rng.standard_normal(shape[1]))
    elif fam == "duprows" and len(shape) == 2 and shape[0] >= 2:
        x[1] = x[0]
    elif fam == "zero":
        x = np.zeros(shape)
    elif fam == "zero_row" and len(shape) == 2 and shape[0] >= 1:
        x[rng.integers(0, shape[0])] = 0.0
    elif fam == "nonneg":
        x = np.abs(x)
    elif fam == "conflict" and len(shape) == 2 and shape[0] >= 2:
        x[1] = -x[0] * rng.uniform(0.5, 2.0)
    return x


def _vector(rng, shape, fam, j):
    shape = [int(s) for s in shape]
    if any(s < 0 for s in shape):
        raise Inadmissible("negative dimension")
    kind = j % 4
    if kind == 0:
        return rng.uniform(0.2, 3.0, size=shape)
    if kind == 1:
        v = rng.uniform(0.0, 2.0, size=shape)
        if v.size:
            v[rng.integers(0, v.size)] = 0.0
        return v
    if kind == 2:
        return rng.integers(0, 4, size=shape).astype(np.float64)
    return rng.standard_normal(shape)


def sample_envs(consts, hyps, model, seed=0):
    rng = np.random.default_rng(seed)
    ints = {n: c for n, c in consts.items() if z3.is_int(c)}
    reals = {n: c for n, c in consts.items() if z3.is_real(c)}
    bools = {n: c for n, c in consts.items() if z3.is_bool(c)}
    others = {n: c for n, c in consts.items() if n not in ints and n not in reals and n not in bools}
    mvals = {k: _parse_model_value(v) for k, v in (model or {}).items()}
    assigns = _int_assignments(hyps, ints, model)
    if not assigns:
        assigns = [{n: (mvals.get(n) if isinstance(mvals.get(n), int) else 2) for n in ints}]
    dtype_names, spare = {}, ["float16", "bfloat16", "float8"]
    for nm in ("float64", "float32", "int64"):
        if (model or {}).get(nm) is not None:
            dtype_names[model[nm]] = nm
    for n, c in others.items():
        if c.sort().name() == "Dtype" and (model or {}).get(n) is not None and model[n] not in dtype_names:
            dtype_names[model[n]] = "float32" if "float32" not in dtype_names.values() else (spare.pop(0) if spare else "float16")
    j = 0
    generic = assigns[: max(1, min(4, len(assigns)))]
    # many rows (library routines switch algorithms with the size, e.g. torch.cdist beyond 25 rows)
    bigs = []
    for n in sorted(ints):
        if n.endswith(".d0") and generic:
            big = dict(generic[0])
            big[n] = 27
            for n2 in ints:
                if n2 != n and not n2.endswith(".d1") and big.get(n2, 0) > 3:
                    big[n2] = 1
            bigs.append(big)
            assigns.append(big)
    schedule = [(f, a) for a in generic[:2] for f in FAMILIES]
    schedule += [(f, b) for b in bigs for f in ("bigoffset", "rowscales", "bigoffset", "offset", "rowscales", "gauss", "bigoffset", "huge", "rowscales", "ints")]
    schedule += [(f, a) for a in generic[2:] for f in FAMILIES]
    while True:
        # every family with each of the most generic shapes first, then all shapes
        if j < len(schedule):
            fam, a = schedule[j]
        else:
            a = assigns[j % len(assigns)]
            fam = FAMILIES[(j // max(1, len(assigns))) % len(FAMILIES)]
        env = dict(a)
        for n in bools:
            env[n] = bool(mvals.get(n)) if isinstance(mvals.get(n), bool) else False
        for n in reals:
            mv = mvals.get(n)
            choice = j % 5
            if choice == 0 and isinstance(mv, (int, float)) and not isinstance(mv, bool):
                env[n] = float(mv)
            elif choice == 1:
                env[n] = float(10.0 ** rng.integers(-8, 0))
            elif choice == 2:
                env[n] = float(rng.uniform(0.05, 0.95))
            elif choice == 3:
                env[n] = float(rng.uniform(0.5, 4.0))
            else:
                env[n] = float(rng.choice([1e-12, 1.0, 1e-4, 0.5, 2.0, 0.0, -1.0]))
        ok = True
        for n, c in others.items():
            sn = c.sort().name()
            if sn == "Dtype":
                # only (in)equalities between dtypes matter (every float dtype is the reals here): follow the classes of the model
                env[n] = dtype_names.get((model or {}).get(n), "float64") if j % 2 == 0 else "float64"
            elif sn == "Arr":
                if n not in ARR_SHAPES:
                    ok = False
                    break
                try:
                    shp = [s if isinstance(s, int) else _i(ev(s, env)) for s in ARR_SHAPES[n]]
                except (Unknown, Inadmissible):
                    ok = False
                    break
                env[n] = _matrix(rng, shp, fam) if len(shp) == 2 else _vector(rng, shp, fam, j) if len(shp) == 1 else _matrix(rng, shp, fam)
            else:
                ok = False
                break
        if not ok:
            raise Unknown("a free constant has no standard interpretation / unknown shape")
        yield env, fam
        j += 1


# ----------------------------------------------------------------------------- the check


def validate(obl, model, numeric, seed=0):
    """numeric = {"code": Arr term, "cases": [(cond, Arr term)], "call": {...} | None}  (or {"goal": BoolRef} only).
    Returns {"status": candidate | spurious | unknown, ...}."""
    try:
        return _validate(obl, model, numeric, seed)
    except Unknown as ex:
        return {"status": "unknown", "reason": f"no standard interpretation: {ex}"}
    except Exception as ex:  # noqa: BLE001  (this module must never break a verdict)
        return {"status": "unknown", "reason": f"numeric evaluation failed: {type(ex).__name__}: {ex}"}


def _validate(obl, model, numeric, seed):
    ground = [h for h in obl.hyps if not z3.is_quantifier(h)]
    exprs = list(ground) + [obl.goal]
    if "code" in numeric:
        exprs += [numeric["code"]] + [c for c, _ in numeric["cases"]] + [v for _, v in numeric["cases"]]
    for v in (numeric.get("call") or {}).get("kwargs", {}).values():
        if isinstance(v, z3.ExprRef):
            exprs.append(v)
    consts = free_consts(exprs)
    consts.pop("I0!canon", None)
    admissible, agree, unknown_hyps, errors, opaque_differs = 0, 0, set(), {}, 0
    extra = []
    gen = sample_envs(consts, ground, model, seed)
    tried = 0
    fams = set()
    while tried < MAX_SAMPLES:
        from_gen = not extra
        if extra:
            env, fam = extra.pop()
        else:
            env, fam = next(gen)
        tried += 1
        env["__cmp__"] = []
        env["__opaque_ok__"], env["__opaque_seed__"], env["__opaque_used__"] = True, tried, False
        try:
            okh = True
            memo = {}
            _definitions(ground, env, consts)
            for hi, h in enumerate(ground):
                try:
                    if not _b(ev(h, env, memo)):
                        okh = False
                        break
                except Unknown:
                    unknown_hyps.add(hi)
            cmp_notes = env.pop("__cmp__", [])
            if not okh:
                if from_gen:
                    _boundary(extra, env, cmp_notes, fam, tried)
                continue
            env["__cmp__"] = cmp_notes
            differs, expected, got = _differs(obl, numeric, env, memo)
            cmp_notes = env.pop("__cmp__", [])
            if from_gen:
                _boundary(extra, env, cmp_notes, fam, tried)
        except Inadmissible as ex:
            errors[str(ex)[:60]] = errors.get(str(ex)[:60], 0) + 1
            env.pop("__cmp__", None)
            continue
        if differs and not _stable(obl, numeric, env, expected, got):
            errors["ill-conditioned sample (values change under a 1e-10 perturbation of the input)"] = errors.get(
                "ill-conditioned sample (values change under a 1e-10 perturbation of the input)", 0) + 1
            continue
        if differs and env.get("__opaque_used__"):
            opaque_differs += 1   # not a counterexample (the opaque values may be unrealisable): the refutation stands
            continue
        admissible += 1
        fams.add(fam)
        if differs:
            call = numeric.get("call")
            concrete = None
            if call:
                concrete = {"cls": call["cls"], "kwargs": eval_call(call, env), "input": _jsonable_val(env.get(call.get("input", "J")))}
            return {"status": "candidate", "witness": _jsonable(env), "family": fam, "expected": _jsonable_val(expected), "call": concrete,
                    "symbolic_value_of_code": _jsonable_val(got), "samples_tried": tried,
                    "hypotheses_not_evaluable": len(unknown_hyps)}
        agree += 1
        if admissible >= MIN_ADMISSIBLE and len({f.split("+")[0] for f in fams}) >= 10 and tried >= 3 * MIN_ADMISSIBLE:
            break
    if opaque_differs:
        return {"status": "unknown", "reason": f"the two sides differ on {opaque_differs} samples that give arbitrary values to sub-terms without "
                                               "standard interpretation (not a counterexample, not an agreement)"}
    nf = len({f.split("+")[0] for f in fams})
    # 8 input families normally; when the path condition itself excludes most families (e.g. "largest singular value below
    # norm_eps" excludes the huge ones) the whole budget has been spent looking for them: then at least 3
    if (admissible >= MIN_ADMISSIBLE and nf >= 8) or (tried >= MAX_SAMPLES and admissible >= 15 and nf >= 3):
        return {"status": "spurious", "admissible_samples": admissible, "families": sorted(fams), "samples_tried": tried,
                "hypotheses_not_evaluable": len(unknown_hyps)}
    if admissible == 0 and tried >= MAX_SAMPLES and not errors:
        # no sampled input (16 families x shapes x boundary values of the parameters) satisfies the ground path condition under
        # the standard interpretation: the path of this obligation instance is not reached by any of them
        return {"status": "spurious", "admissible_samples": 0, "families": ["none: the path condition is false on every sampled input"],
                "samples_tried": tried, "hypotheses_not_evaluable": len(unknown_hyps), "unreached_path": True}
    return {"status": "unknown", "reason": f"only {admissible} admissible samples in {tried} draws ({dict(list(errors.items())[:3])})"}


def _definitions(ground, env, consts):
    """ground hypotheses of the form  c == term  (c a free array constant: a havoc'd loop variable pinned by an invariant, a
    result bound to a contract function): c takes the value of the term"""
    for h in ground:
        if z3.is_eq(h) and h.arg(0).sort().name() == "Arr":
            a, b = h.arg(0), h.arg(1)
            for c, t in ((a, b), (b, a)):
                if z3.is_const(c) and c.decl().kind() == z3.Z3_OP_UNINTERPRETED and c.decl().name() in consts and not (
                        z3.is_const(t) and t.decl().kind() == z3.Z3_OP_UNINTERPRETED):
                    try:
                        env[c.decl().name()] = ev(t, env, {})
                    except (Unknown, Inadmissible):
                        pass
                    break


def _boundary(extra, env, notes, fam, tried):
    seen = set()
    for name, val in notes:
        if name in seen or len(seen) >= 2:
            continue
        seen.add(name)
        if name in env and env[name] != val:
            for f, tag in ((1.0, "+boundary"), (2.0, "+above"), (0.5, "+below")):
                e2 = {k: v for k, v in env.items() if k != "__cmp__"}
                e2[name] = val * f if val != 0 else (0.0 if f == 1.0 else (f - 1.0) * 1e-6)
                extra.append((e2, fam.split("+")[0] + tag))


def _differs(obl, numeric, env, memo):
    if "code" in numeric:
        got = ev(numeric["code"], env, memo)
        exp = None
        for cond, val in numeric["cases"]:
            if _b(ev(cond, env, memo)):
                exp = ev(val, env, memo)
                break
        if exp is None:
            raise Inadmissible("no spec case applies")
        return (not close(got, exp)), exp, got
    return (not _b(ev(obl.goal, env, memo))), None, None


def _stable(obl, numeric, env, expected, got):
    """a disagreement only counts on a WELL-CONDITIONED sample: both values must survive a relative 1e-10 perturbation of the
    array inputs (rank decisions on exactly rank-deficient matrices, ties of a sort, ... flip with rounding noise and say
    nothing about the code)"""
    if "code" not in numeric or expected is None:
        return True
    rng = np.random.default_rng(12345)
    for _ in range(2):
        e2 = {}
        for k, v in env.items():
            if isinstance(v, np.ndarray) and v.dtype == np.float64 and not k.startswith("__"):
                e2[k] = v * (1.0 + 1e-10 * rng.standard_normal(v.shape))
            else:
                e2[k] = v
        e2["__cmp__"] = None
        try:
            d2, exp2, got2 = _differs(obl, numeric, e2, {})
        except (Unknown, Inadmissible):
            return False
        if not (close(np.asarray(exp2), np.asarray(expected), rtol=1e-4) and close(np.asarray(got2), np.asarray(got), rtol=1e-4)):
            return False
    return True


def _jsonable_val(v):
    if v is None:
        return None
    if isinstance(v, np.ndarray):
        return v.tolist()
    if isinstance(v, (np.floating, np.integer, np.bool_)):
        return v.item()
    return v


def _jsonable(env):
    return {k: _jsonable_val(v) for k, v in env.items() if not k.startswith("__")}


def eval_call(call, env):
    """concrete constructor arguments of the real call: every z3 term / number evaluated in env"""
    out = {}
    for k, v in (call or {}).get("kwargs", {}).items():
        if isinstance(v, z3.ExprRef):
            out[k] = _jsonable_val(ev(v, env))
        else:
            out[k] = v
    return out
