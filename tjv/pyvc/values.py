"""Symbolic value domain of pyvc (see DESIGN.md §2.1 "Value model")."""
from __future__ import annotations

import ast

import z3

from .loader import External, Unsupported


class _Missing:
    def __repr__(self):
        return "MISSING"


MISSING = _Missing()

TenS = z3.DeclareSort("Ten")  # identity of a tensor object of the user's program
ShapeS = z3.DeclareSort("Shape")  # opaque (arbitrary-rank) shape
ArrS = z3.DeclareSort("Arr")  # value of a tensor/ndarray in the algebraic (aggregator) domain
DtypeS = z3.DeclareSort("Dtype")
NodeS = z3.DeclareSort("Node")  # autograd graph node

_FUNCS = {}


def sort_of(x):
    if isinstance(x, bool):
        return z3.BoolSort()
    if isinstance(x, int):
        return z3.IntSort()
    if isinstance(x, float):
        return z3.RealSort()
    return x.sort()


def lift(x):
    if isinstance(x, str):
        return z3.StringVal(x)
    if isinstance(x, bool):
        return z3.BoolVal(x)
    if isinstance(x, int):
        return z3.IntVal(x)
    if isinstance(x, float):
        return z3.RealVal(repr(x))
    return x


def U(name, ret_sort, *args):
    """Application of the uninterpreted function `name` (one symbol per name+signature)."""
    args = [lift(a) for a in args]
    key = (name, tuple(str(a.sort()) for a in args), str(ret_sort))
    f = _FUNCS.get(key)
    if f is None:
        if args:
            f = z3.Function(name + "".join("_" + k[0] for k in key[1]) if _sig_clash(name, key) else name,
                            *[a.sort() for a in args], ret_sort)
        else:
            f = z3.Const(name, ret_sort)
        _FUNCS[key] = f
    return f(*args) if args else f


def _sig_clash(name, key):
    for k in _FUNCS:
        if k[0] == name and k != key:
            return True
    return False


def forall(vs, body, patterns=None):
    """z3.ForAll with explicit triggers when z3 accepts them (terms containing if-then-else or only interpreted
    symbols are not valid triggers: then z3 infers its own)."""
    if patterns:
        try:
            return z3.ForAll(vs, body, patterns=patterns)
        except z3.Z3Exception:
            pass
    return z3.ForAll(vs, body)


class OpaqueStr:
    """Exception messages / f-strings: value dropped by the extraction."""

    def __repr__(self):
        return "<str>"

    def sym_getattr(self, interp, name):
        if name in ("rstrip", "format", "join"):
            return SymMethod(lambda interp, *a, **k: OpaqueStr())
        return MISSING


class NamedPair(tuple):
    """result of torch.topk / torch.sort: a tuple with named fields"""

    def __new__(cls, items, names):
        o = super().__new__(cls, items)
        o.names = names
        return o

    def sym_getattr(self, interp, name):
        if name in self.names:
            return self[self.names.index(name)]
        return MISSING


class Partial:
    def __init__(self, fn, args, kwargs):
        self.fn, self.args, self.kwargs = fn, args, kwargs


class SymMethod:
    def __init__(self, fn):
        self.fn = fn


class Slice:
    def __init__(self, lo, hi, step):
        self.lo, self.hi, self.step = lo, hi, step


class Quot:
    """True division of two integers, kept symbolic so that math.ceil(a / b) stays in integer arithmetic."""

    def __init__(self, a, b):
        self.a, self.b = a, b

    def real(self):
        return z3.ToReal(lift(self.a)) / z3.ToReal(lift(self.b))


class Opt:
    """Optional value: `value` is meaningful only when `is_none` is false."""

    def __init__(self, is_none, value):
        self.is_none = is_none
        self.value = value


def is_sym(x):
    return isinstance(x, z3.ExprRef)


def is_symbolic_key(k):
    return isinstance(k, z3.ExprRef) or (hasattr(k, "ref") and getattr(k, "ref", None) is not None and not getattr(k, "concrete_identity", False))


def and_(a, b):
    if isinstance(a, bool) and isinstance(b, bool):
        return a and b
    if a is True:
        return b
    if b is True:
        return a
    if a is False or b is False:
        return False
    return z3.And(a, b)


def or_(a, b):
    if isinstance(a, bool) and isinstance(b, bool):
        return a or b
    if a is False:
        return b
    if b is False:
        return a
    if a is True or b is True:
        return True
    return z3.Or(a, b)


def not_(a):
    return (not a) if isinstance(a, bool) else z3.Not(a)


# ----------------------------------------------------------------------------- symbolic containers


class SymSeq:
    """Sequence of symbolic length: `length` Int term, `get(i)` meta-level closure from an Int term to a value.
    `distinct` (BoolRef or bool): no two positions hold the same element (only meaningful for identity-bearing
    elements)."""

    def __init__(self, length, get, distinct=None, origin=None, elem_kind=None):
        self.length = length
        self.get = get
        self.distinct = distinct
        self.origin = origin  # e.g. the SymSet this sequence enumerates
        self.elem_kind = elem_kind

    def sym_getattr(self, interp, name):
        if name == "append":
            raise Unsupported("append on an immutable symbolic sequence")
        return MISSING


class SymIter:
    """A ONE-SHOT iterable (generator, iterator): the first traversal yields the sequence, every later traversal is
    empty.  Arguments annotated `Iterable[...]` are modelled with it, so that traversing one twice is noticed."""

    def __init__(self, seq: SymSeq):
        self.seq = seq
        self.consumed = False

    def consume(self):
        if self.consumed:
            return SymSeq(0, lambda i: None, distinct=True)
        self.consumed = True
        return self.seq


class SymList:
    """Growable list of symbolic length (loop-carried accumulators)."""

    def __init__(self, length, get):
        self.length = length
        self.get = get

    def sym_getattr(self, interp, name):
        if name == "append":
            def app(interp, x):
                if isinstance(x, Opt):
                    # an Optional stored after its `is None` test: it must be non-None on this path
                    interp.cx.oblige("prim.append.optional_is_not_none", not_(x.is_none), kind="prim")
                    x = x.value
                n, g = self.length, self.get
                self.length = n + 1
                self.get = lambda i, n=n, g=g, x=x: ite_val(i == n, x, g(i))
            return SymMethod(app)
        return MISSING


def ite_val(c, a, b):
    """If-then-else over arbitrary symbolic values (structural)."""
    if isinstance(c, bool):
        return a if c else b
    c = z3.simplify(c)
    if z3.is_true(c):
        return a
    if z3.is_false(c):
        return b
    if isinstance(a, tuple) and isinstance(b, tuple) and len(a) == len(b):
        return tuple(ite_val(c, x, y) for x, y in zip(a, b))
    if isinstance(a, (int, float, bool, z3.ExprRef)) and isinstance(b, (int, float, bool, z3.ExprRef)):
        la, lb = lift(a), lift(b)
        if la.sort() != lb.sort():
            if z3.is_int(la) and z3.is_real(lb):
                la = z3.ToReal(la)
            elif z3.is_real(la) and z3.is_int(lb):
                lb = z3.ToReal(lb)
        return z3.If(c, la, lb)
    if isinstance(a, TRef) and isinstance(b, TRef):
        return TRef(z3.If(c, a.ref, b.ref))
    if a is None and b is None:
        return None
    if isinstance(a, Opt) and isinstance(b, Opt):
        return Opt(z3.If(c, lift(a.is_none), lift(b.is_none)), ite_val(c, a.value, b.value))
    if hasattr(a, "ite") and type(a) is type(b):
        return a.ite(c, b)
    raise Unsupported(f"ite over {type(a).__name__}/{type(b).__name__}")


class SymSet:
    """Finite set of tensor identities: membership predicate + its (duplicate-free) enumeration order."""

    def __init__(self, cx, name="S", member=None):
        self.arr = member if member is not None else cx.fresh_const(name, z3.ArraySort(TenS, z3.BoolSort()))
        self.card = None
        self._seq = None
        self.cx = cx

    def contains(self, t):
        return z3.Select(self.arr, t)

    def seq(self, cx):
        """The iteration order of the (unmodified) set: an uninterpreted duplicate-free enumeration."""
        if self._seq is None:
            n = cx.fresh_int("card")
            f = cx.fresh_func("iter", z3.IntSort(), TenS)
            idx = cx.fresh_func("iteridx", TenS, z3.IntSort())
            j = z3.Int("j!q")
            t = z3.Const("t!q", TenS)
            cx.assume(n >= 0)
            # enumeration is onto the set, and injective (idx is its inverse)
            cx.assume(forall([j], z3.Implies(z3.And(0 <= j, j < n), z3.And(self.contains(f(j)), idx(f(j)) == j)),
                                patterns=[f(j)]), tag="set-iteration-order")
            cx.assume(forall([t], z3.Implies(self.contains(t), z3.And(0 <= idx(t), idx(t) < n, f(idx(t)) == t)),
                                patterns=[idx(t)]), tag="set-iteration-order")
            s = SymSeq(n, lambda i: TRef(f(i)), distinct=True, origin=self)
            s.index_of = lambda tt: idx(tt)
            s.at_key = lambda tt: TRef(tt)
            src = getattr(self, "from_seq", None)
            if src is not None:
                # |set(s)| <= len(s), with equality iff s has no duplicates  (pigeonhole; List.toFinset_card_of_nodup)
                from . import prims as P

                class _I:
                    pass
                fi = _I()
                fi.cx = cx
                d = src.distinct if src.distinct is not None else P.seq_distinct_pred(fi, src)
                cx.assume(z3.And(n <= lift(src.length), (n == lift(src.length)) == lift(d)),
                          tag="|set(s)| = len(s) iff s is duplicate-free")
            self._seq = s
            self.card = n
        return self._seq


class SymMap:
    """Mapping keyed by tensor identities: `keys` is a SymSeq (insertion order, duplicate-free) or None with
    `dom` a membership predicate; `get(t)` meta-level closure from a Ten term to a value."""

    def __init__(self, keys: SymSeq, get, dom=None, by_index=None):
        self.keys = keys
        self.get = get
        self.dom = dom  # callable(Ten term) -> BoolRef ; derived from keys when None
        self.by_index = by_index  # positional access i -> value of the i-th key (avoids the idx(key_i) round trip)

    def sym_setitem(self, interp, key, v):
        """d[key] = v for a key NOT yet present (insertion at the end); overwriting keeps the position."""
        from . import prims as P
        if not isinstance(key, TRef):
            raise Unsupported("non-tensor key")
        cx = interp.cx
        dom = P.map_dom(interp, self)
        present = cx.branch(dom(key.ref))
        old_get, old_keys, k = self.get, self.keys, key.ref
        self.get = lambda t: ite_val(t == k, v, old_get(t))
        if not present:
            n = lift(old_keys.length)
            self.keys = SymSeq(z3.simplify(n + 1), lambda i: ite_val(lift(i) == n, key, old_keys.get(i)), distinct=True)
            self.dom = lambda t: z3.Or(t == k, dom(t))
            self._keyset = None
        self.by_index = None


# ----------------------------------------------------------------------------- tensors


class TRef:
    """A tensor object of the user's program (a key, an input, an output): only identity and metadata."""

    concrete_identity = False

    def __init__(self, ref):
        self.ref = ref

    # metadata as uninterpreted functions of the identity
    @property
    def shape(self):
        return Shape([], U("shape", ShapeS, self.ref))

    def numel(self):
        return U("numel_s", z3.IntSort(), U("shape", ShapeS, self.ref))

    def __repr__(self):
        return f"TRef({self.ref})"


class Shape:
    """lead dims (Int terms / ints) followed by an optional opaque tail of arbitrary rank."""

    def __init__(self, lead, tail=None):
        self.lead = list(lead)
        self.tail = tail

    def tail_numel(self):
        return U("numel_s", z3.IntSort(), self.tail) if self.tail is not None else 1

    def eq(self, other):
        if (self.tail is None) != (other.tail is None) or len(self.lead) != len(other.lead):
            if self.tail is None and other.tail is None:
                return False
            raise Unsupported("comparison of shapes of different symbolic structure")
        c = True
        for a, b in zip(self.lead, other.lead):
            c = and_(c, lift(a) == lift(b))
        if self.tail is not None:
            c = and_(c, self.tail == other.tail)
        return c

    def sym_len(self, interp):
        if self.tail is None:
            return len(self.lead)
        return len(self.lead) + U("ndim", z3.IntSort(), self.tail)

    def __repr__(self):
        return f"Shape({self.lead}, {self.tail})"


def concrete_iter(it):
    """Python-level iteration when the iterable has a concrete length; None otherwise."""
    if isinstance(it, (list, tuple, set, frozenset)):
        return list(it)
    if isinstance(it, dict):
        return list(it.keys())
    if isinstance(it, range):
        return list(it)
    if isinstance(it, (type({}.keys()), type({}.values()), type({}.items()))):
        return list(it)
    if isinstance(it, zip):
        return list(it)
    if isinstance(it, ZipIter):
        cs = [concrete_iter(x) for x in it.parts]
        if all(c is not None for c in cs):
            return list(zip(*cs))
        return None
    if isinstance(it, RangeIter):
        return None
    return None


class ZipIter:
    """zip(...) of symbolic parts: an ITERATOR - the first traversal yields the tuples, every later one is empty"""

    def __init__(self, parts):
        self.parts = parts
        self.consumed = False


class RangeIter:
    def __init__(self, n):
        self.n = n


def as_symseq(interp, it):
    from . import prims

    return prims.as_symseq(interp, it)


def to_list(interp, it):
    c = concrete_iter(it)
    if c is not None:
        return list(c)
    return as_symseq(interp, it)


def to_concrete_list(interp, it):
    c = concrete_iter(it)
    if c is None:
        raise Unsupported("star-unpacking of a symbolic sequence")
    return list(c)


def unpack(interp, v, n):
    if isinstance(v, (tuple, list)):
        if len(v) != n:
            raise Unsupported("unpack length mismatch")
        return list(v)
    if hasattr(v, "sym_unpack"):
        return v.sym_unpack(interp, n)
    raise Unsupported(f"unpack of {type(v).__name__}")


def make_set(interp, items):
    return set(items)


def finish_comp(interp, out, kind):
    if kind == "list":
        return out
    if kind == "set":
        if any(is_symbolic_key(x) for x in out):
            from . import prims

            return prims.set_from_items(interp, out)
        return set(out)
    if kind == "dict":
        d = {}
        for k, v in out:
            if is_symbolic_key(k):
                from . import prims

                return prims.map_from_pairs(interp, out)
            d[k] = v
        return d
    raise Unsupported(kind)


def finish_nested(interp, out, kind):
    from . import prims

    return prims.finish_nested_parts(interp, out, kind)


def symbolic_comp(interp, e, g, seq, frame, kind):
    from . import prims

    return prims.symbolic_comp(interp, e, g, seq, frame, kind)


def filtered_comp(interp, e, g, seq, frame, kind):
    from . import prims

    return prims.filtered_comp(interp, e, g, seq, frame, kind)


def nested_symbolic_comp(interp, e, gi, it, f, kind):
    from . import prims

    return prims.nested_symbolic_comp(interp, e, gi, it, f, kind)


# ----------------------------------------------------------------------------- operators


def binop(interp, op, a, b, inplace=False):
    from . import prims

    return prims.binop(interp, op, a, b, inplace)


def compare(interp, op, a, b):
    from . import prims

    return prims.compare(interp, op, a, b)


def getitem(interp, obj, idx):
    from . import prims

    return prims.getitem(interp, obj, idx)
