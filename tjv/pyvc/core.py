"""Path contexts, exploration by re-execution, obligations and their discharge."""
from __future__ import annotations

import time

import z3

from .loader import Unsupported

try:  # pattern-inference chatter is not a verdict
    z3.set_param("warning", False)
except Exception:  # noqa: BLE001
    pass


class PathInfeasible(Exception):
    pass


class PathEnd(Exception):
    """Path deliberately ended (e.g. after the inductive step of a loop); its obligations are kept."""


class SymRaise(Exception):
    """A Python-level `raise` reached during symbolic execution."""

    def __init__(self, exc, where=None):
        super().__init__(str(exc))
        self.exc = exc
        self.where = where


class ExcValue:
    """A symbolic exception instance; only the class matters (message text is dropped)."""

    HIER = {
        "ValueError": ["ValueError", "Exception"],
        "TypeError": ["TypeError", "Exception"],
        "RuntimeError": ["RuntimeError", "Exception"],
        "LinAlgError": ["LinAlgError", "RuntimeError", "Exception"],
        "KeyError": ["KeyError", "LookupError", "Exception"],
        "IndexError": ["IndexError", "LookupError", "Exception"],
        "ZeroDivisionError": ["ZeroDivisionError", "ArithmeticError", "Exception"],
        "SolverError": ["SolverError", "Exception"],
        "Exception": ["Exception"],
        "NotImplementedError": ["NotImplementedError", "RuntimeError", "Exception"],
    }

    def __init__(self, cls, args=()):
        self.cls = cls
        self.args = args

    def isinstance_of(self, name):
        return name in self.HIER.get(self.cls, [self.cls, "Exception"])

    def __repr__(self):
        return f"{self.cls}(...)"


class Obligation:
    def __init__(self, name, hyps, goal, meta=None):
        self.name = name
        self.hyps = list(hyps)
        self.goal = goal
        self.meta = meta or {}


class Ctx:
    """One execution path."""

    def __init__(self, decisions=(), timeout_ms=2000):
        self.decisions = list(decisions)
        self.pos = 0
        self.alts = []
        self.pc = []
        self.obligations = []
        self.events = []  # ghost events (autograd sweeps, vmap calls, heap writes, ...)
        self.counter = {}
        self.solver = z3.Solver()
        self.solver.set("timeout", timeout_ms)
        self.notes = []
        self.ghost = {}
        self.axioms_used = set()
        self.muted = 0
        self.replay_stack = []

    def mute(self):
        """Context manager: obligations / events emitted while building SPEC terms are discarded."""
        cx = self

        class _M:
            def __enter__(self):
                cx.muted += 1

            def __exit__(self, *a):
                cx.muted -= 1
        return _M()

    # -- fresh symbols (deterministic along a decision prefix)
    def fresh_name(self, base):
        n = self.counter.get(base, 0)
        self.counter[base] = n + 1
        return f"{base}!{n}"

    def fresh_int(self, base="i"):
        return z3.Int(self.fresh_name(base))

    def fresh_real(self, base="x"):
        return z3.Real(self.fresh_name(base))

    def fresh_bool(self, base="b"):
        return z3.Bool(self.fresh_name(base))

    def fresh_const(self, base, sort):
        return z3.Const(self.fresh_name(base), sort)

    def fresh_func(self, base, *sorts):
        return z3.Function(self.fresh_name(base), *sorts)

    # -- assumptions / obligations
    def assume(self, f, tag=None):
        if f is True:
            return
        if f is False:
            raise PathInfeasible()
        self.pc.append(f)
        # the exploration solver only sees the quantifier-free part of the path condition: an over-approximation of
        # feasibility (extra paths only produce obligations with unsatisfiable hypotheses, dropped by the cover
        # query); obligations are always discharged under the FULL path condition
        if not _has_quantifier(f):
            self.solver.add(f)
        if tag:
            self.axioms_used.add(tag)

    def oblige(self, name, goal, **meta):
        if self.muted:
            return
        if goal is True:
            goal = z3.BoolVal(True)
        if goal is False:
            goal = z3.BoolVal(False)
        self.obligations.append(Obligation(name, self.pc, goal, meta))

    def feasible(self, extra=None):
        self.solver.push()
        if extra is not None:
            self.solver.add(extra)
        r = self.solver.check()
        self.solver.pop()
        return r != z3.unsat

    def branch(self, cond):
        """Fork on a symbolic condition.  Returns the side taken on this path."""
        if isinstance(cond, bool):
            return cond
        cond = z3.simplify(cond)
        if z3.is_true(cond):
            return True
        if z3.is_false(cond):
            return False
        if self.replay_stack:
            # pure re-evaluation of a closure body at another index: follow the decisions of the Skolem evaluation
            rp = self.replay_stack[-1]
            if rp["pos"] < len(rp["decs"]):
                d = rp["decs"][rp["pos"]]
                rp["pos"] += 1
                return d
            raise Unsupported("closure body branches differently at another index")
        if self.pos < len(self.decisions):
            d = self.decisions[self.pos]
            self.pos += 1
            self.assume(cond if d else z3.Not(cond))
            return d
        ft = self.feasible(cond)
        ff = self.feasible(z3.Not(cond))
        if not ft and not ff:
            raise PathInfeasible()
        if ft and ff:
            self.alts.append(self.decisions[: self.pos] + [False])
            d = True
        else:
            d = ft
        self.decisions = self.decisions[: self.pos] + [d]
        self.pos += 1
        self.assume(cond if d else z3.Not(cond))
        return d

    def choose(self, n, label="choice"):
        """Non-deterministic choice among n alternatives (meta-level fork, e.g. loop step/exit)."""
        k = 0
        while k < n - 1:
            b = z3.Bool(self.fresh_name(f"{label}.{k}"))
            if self.branch(b):
                return k
            k += 1
        return n - 1

    def event(self, kind, **kw):
        if self.muted:
            return
        self.events.append((kind, kw))


def _has_quantifier(f):
    seen, stack = set(), [f]
    while stack:
        x = stack.pop()
        i = x.get_id()
        if i in seen:
            continue
        seen.add(i)
        if z3.is_quantifier(x):
            return True
        if z3.is_app(x):
            stack.extend(x.children())
    return False


class PathResult:
    def __init__(self, ctx, kind, value):
        self.ctx = ctx
        self.kind = kind  # 'return' | 'raise' | 'end'
        self.value = value


EXPLORE_BUDGET_S = 150.0


def explore(fn, max_paths=400, budget_s=None):
    """Run fn(ctx) along every feasible path.  fn may raise SymRaise (recorded), PathEnd, PathInfeasible."""
    work = [[]]
    results = []
    t0 = time.time()
    budget = budget_s if budget_s is not None else EXPLORE_BUDGET_S
    while work:
        if len(results) > max_paths:
            raise Unsupported("path explosion")
        if time.time() - t0 > budget:
            raise Unsupported(f"exploration budget of {budget:.0f} s exhausted after {len(results)} paths")
        prefix = work.pop()
        ctx = Ctx(prefix)
        try:
            v = fn(ctx)
            res = PathResult(ctx, "return", v)
        except SymRaise as e:
            res = PathResult(ctx, "raise", e.exc)
        except PathEnd:
            res = PathResult(ctx, "end", None)
        except PathInfeasible:
            work.extend(ctx.alts)
            continue
        work.extend(ctx.alts)
        results.append(res)
    return results


# ----------------------------------------------------------------------------- discharge


def _solver(timeout_ms):
    s = z3.Solver()
    s.set("timeout", timeout_ms)
    return s


def _int_consts(fs):
    out, seen, st = {}, set(), list(fs)
    while st:
        x = st.pop()
        i = x.get_id()
        if i in seen:
            continue
        seen.add(i)
        if z3.is_quantifier(x):
            st.append(x.body())
            continue
        if z3.is_const(x) and x.decl().kind() == z3.Z3_OP_UNINTERPRETED and z3.is_int(x):
            out[str(x)] = x
        if z3.is_app(x):
            st.extend(x.children())
    return list(out.values())


def _model_dict(m):
    model = {}
    for d in m.decls():
        if d.arity() == 0:
            try:
                model[d.name()] = str(m[d])
            except Exception:  # noqa: BLE001
                pass
    return dict(list(model.items())[:60])


def _check(obl, timeout_ms, extra=(), fresh=False):
    """``fresh``: the query is translated into a z3 context of its own first.  z3's search depends on the AST ids of the context,
    i.e. on everything the process built before (the checks of the same property that ran earlier): the same counter-model query was
    answered in 4 s when its check ran alone and timed out after two other checks.  A context per query makes the answer a function
    of the query."""
    if fresh:
        ctx = z3.Context()
        s = z3.Solver(ctx=ctx)
        s.set("timeout", int(timeout_ms))
        for h in obl.hyps:
            s.add(h.translate(ctx))
        s.add(z3.Not(obl.goal).translate(ctx))
        for e in extra:
            s.add(e.translate(ctx))
        return s.check(), s
    s = _solver(timeout_ms)
    for h in obl.hyps:
        s.add(h)
    s.add(z3.Not(obl.goal))
    for e in extra:
        s.add(e)
    r = s.check()
    return r, s


def discharge(obl: Obligation, timeout_ms=30000):
    """Returns (result, ms, info): result in discharged | refuted | unknown.

    1. the VC  hyps /\ not goal  with a short budget;  unsat -> discharged, sat -> refuted (z3 only answers sat on a
       model it has checked against the quantified hypotheses);
    2. if undecided: bounded counter-model search — the same VC with every integer constant (sequence lengths, row
       counts, chunk sizes, ...) confined to [-b, b], b = 1, 2, 3: a model found there is a genuine model of the
       full VC (the quantified axioms are all guarded by those lengths, which makes them finitely instantiable);
    3. if still undecided: the VC again with the full budget."""
    t0 = time.time()
    first = min(3000, timeout_ms)
    r, s = _check(obl, first)
    ms = lambda: int((time.time() - t0) * 1000)  # noqa: E731
    if r == z3.unsat:
        return "discharged", ms(), {}
    if r == z3.sat:
        return "refuted", ms(), {"model": _model_dict(s.model()), "solver_output": "sat"}
    ints = _int_consts(obl.hyps + [obl.goal])
    for b in (1, 2, 3):
        extra = [z3.And(v >= -b, v <= b) for v in ints]
        # (z3 budgets are wall-clock: under a fully loaded machine 4 s for the widest box turned refutations into time-outs)
        r2, s2 = _check(obl, min(timeout_ms, 4000 * b), extra, fresh=True)
        if r2 == z3.sat:
            return "refuted", ms(), {"model": _model_dict(s2.model()),
                                     "solver_output": f"sat (bounded counter-model search: all integer constants within [-{b}, {b}])"}
    if timeout_ms > first:
        r, s = _check(obl, timeout_ms)
        if r == z3.unsat:
            return "discharged", ms(), {}
        if r == z3.sat:
            return "refuted", ms(), {"model": _model_dict(s.model()), "solver_output": "sat"}
    return "unknown", ms(), {"solver_output": f"unknown: {s.reason_unknown()}"}


def to_smt2(obl: Obligation) -> str:
    s = z3.Solver()
    for h in obl.hyps:
        s.add(h)
    s.add(z3.Not(obl.goal))
    return s.to_smt2()


def cvc5_check(obl: Obligation, timeout_s=20):
    """Cross-check with the cvc5 binary on the SMT-LIB2 dump.  Returns 'unsat' | 'sat' | 'unknown'."""
    import os
    import subprocess
    import tempfile

    txt = to_smt2(obl)
    with tempfile.NamedTemporaryFile("w", suffix=".smt2", delete=False) as f:
        f.write("(set-logic ALL)\n" + txt)
        path = f.name
    try:
        p = subprocess.run(["/usr/bin/cvc5", f"--tlimit={timeout_s * 1000}", path], capture_output=True, text=True,
                           timeout=timeout_s + 5)
        out = p.stdout.strip().splitlines()
        return out[0] if out else "unknown"
    except Exception:
        return "unknown"
    finally:
        os.unlink(path)
