"""Per-property registry: which arms exist, what is claimed, texts for MANIFEST.json and evidence.

MANIFEST.json is *generated* from this file by tools/gen_manifest.py, so the two never drift."""
import os

COMMON_ASSUMPTIONS = [
    "machine floating point treated as real arithmetic in every discharged obligation (rounding, overflow, solver tolerances are covered only by the bounded arm)",
    "all tensors on one device (cpu); device= plumbing is dropped by the extraction",
    "CPython semantics assumed by the encoding: unbounded ints, identity hashing/equality of tensors in set/dict, deterministic iteration order of an unmodified set/dict, no monkey-patching, single thread, nn.Module.__call__(x) = forward(x) (no hooks)",
    "torch / numpy / qpsolvers / cvxpy primitives obey their sidecar contracts (tjv/pyvc/prims.py, aten.py, lten.py); each is exercised against the real library by the bounded arm, never proved",
    "soundness of the pyvc symbolic executor and agreement of the z3 / Lean / executable renderings of each contract clause (mitigated by cover queries, the seeded-mutant runs and the bounded arm on the same tree)",
]

REGISTRY = {}
_HERE = os.path.dirname(os.path.abspath(__file__))


def reg(pid, **kw):
    kw.setdefault("claimed", True)
    kw.setdefault("rt", True)
    kw.setdefault("pyvc", os.path.exists(os.path.join(_HERE, "contracts", pid + ".py")))
    kw.setdefault("lean", True)
    kw.setdefault("level", "other")
    kw.setdefault("assumptions", COMMON_ASSUMPTIONS)
    kw.setdefault("trusted_base", [])
    REGISTRY[pid] = kw

reg(
    "C01",
    pyvc=False,  # the end-to-end inlined contract is too heavy (27 min); being replaced by the modular one
    level="other",
    technique="contract-based deductive verification: sidecar contracts on the real functions, VCs generated from the Python AST (pyvc) discharged by z3/cvc5, Lean 4 bridge lemmas; bounded run-time enforcement of the same contracts as stand-in for the undecided clauses",
    text="Deductive part: end-to-end contract of backward() pending modularisation; per-transform contracts C15 [P]; vecMul_rows_of_linear [L]. Every obligation is regenerated from /repo's current AST on each run; what is not discharged is reported undecided. Bounded part (never counted as proved): seeded campaign enforcing the executable rendering of the contract on the real code with an independent oracle; floating-point clauses are decided only there.",
    note="trusted: primitive contracts of torch/numpy/qpsolvers/cvxpy used by the discharged obligations (listed in evidence.trusted_base), floats as reals, CPython set/dict semantics, pyvc soundness, Lean kernel + Mathlib",
    design_ref="DESIGN.md §3 C01",
    explanation="end-to-end contract of backward() pending modularisation; per-transform contracts C15 [P]; vecMul_rows_of_linear [L]",
)
reg(
    "C02",
    level="other",
    technique="contract-based deductive verification: sidecar contracts on the real functions, VCs generated from the Python AST (pyvc) discharged by z3/cvc5, Lean 4 bridge lemmas; bounded run-time enforcement of the same contracts as stand-in for the undecided clauses",
    text="Deductive part: bounded arm; per-transform contracts shared with C15. Every obligation is regenerated from /repo's current AST on each run; what is not discharged is reported undecided. Bounded part (never counted as proved): seeded campaign enforcing the executable rendering of the contract on the real code with an independent oracle; floating-point clauses are decided only there.",
    note="trusted: primitive contracts of torch/numpy/qpsolvers/cvxpy used by the discharged obligations (listed in evidence.trusted_base), floats as reals, CPython set/dict semantics, pyvc soundness, Lean kernel + Mathlib",
    design_ref="DESIGN.md §3 C02",
    explanation="bounded arm; per-transform contracts shared with C15",
)
reg(
    "C03",
    level="proof",
    technique="contract-based deductive verification: sidecar contracts on the real functions, VCs generated from the Python AST (pyvc) discharged by z3/cvc5, Lean 4 bridge lemmas; bounded run-time enforcement of the same contracts as stand-in for the undecided clauses",
    text="Deductive part: end-to-end spec comparison of UPGrad/DualProj (real constructors + forward) [P]; svd_gram, qpgen_to_qpmin, qpmin_unique, qpmin_nonconflict, small_sigma, qpmin_is_projection [L]. Every obligation is regenerated from /repo's current AST on each run; what is not discharged is reported undecided. Bounded part (never counted as proved): seeded campaign enforcing the executable rendering of the contract on the real code with an independent oracle; floating-point clauses are decided only there.",
    note="trusted: primitive contracts of torch/numpy/qpsolvers/cvxpy used by the discharged obligations (listed in evidence.trusted_base), floats as reals, CPython set/dict semantics, pyvc soundness, Lean kernel + Mathlib",
    design_ref="DESIGN.md §3 C03",
    explanation="end-to-end spec comparison of UPGrad/DualProj (real constructors + forward) [P]; svd_gram, qpgen_to_qpmin, qpmin_unique, qpmin_nonconflict, small_sigma, qpmin_is_projection [L]",
)
reg(
    "C04",
    level="other",
    technique="contract-based deductive verification: sidecar contracts on the real functions, VCs generated from the Python AST (pyvc) discharged by z3/cvc5, Lean 4 bridge lemmas; bounded run-time enforcement of the same contracts as stand-in for the undecided clauses",
    text="Deductive part: qp_min_Gw_nonneg, upgrad_allowance, hull_allowance, fw_rate, cagrad_dual [L] over the C03 postconditions [P]. Every obligation is regenerated from /repo's current AST on each run; what is not discharged is reported undecided. Bounded part (never counted as proved): seeded campaign enforcing the executable rendering of the contract on the real code with an independent oracle; floating-point clauses are decided only there.",
    note="trusted: primitive contracts of torch/numpy/qpsolvers/cvxpy used by the discharged obligations (listed in evidence.trusted_base), floats as reals, CPython set/dict semantics, pyvc soundness, Lean kernel + Mathlib",
    design_ref="DESIGN.md §3 C04",
    explanation="qp_min_Gw_nonneg, upgrad_allowance, hull_allowance, fw_rate, cagrad_dual [L] over the C03 postconditions [P]",
)
reg(
    "C05",
    level="other",
    technique="contract-based deductive verification: sidecar contracts on the real functions, VCs generated from the Python AST (pyvc) discharged by z3/cvc5, Lean 4 bridge lemmas; bounded run-time enforcement of the same contracts as stand-in for the undecided clauses",
    text="Deductive part: vecMul_rows_of_linear / linear_agg_eq_vjp [L]; weighting contracts [P]. Every obligation is regenerated from /repo's current AST on each run; what is not discharged is reported undecided. Bounded part (never counted as proved): seeded campaign enforcing the executable rendering of the contract on the real code with an independent oracle; floating-point clauses are decided only there.",
    note="trusted: primitive contracts of torch/numpy/qpsolvers/cvxpy used by the discharged obligations (listed in evidence.trusted_base), floats as reals, CPython set/dict semantics, pyvc soundness, Lean kernel + Mathlib",
    design_ref="DESIGN.md §3 C05",
    explanation="vecMul_rows_of_linear / linear_agg_eq_vjp [L]; weighting contracts [P]",
)
reg(
    "C06",
    level="other",
    technique="contract-based deductive verification: sidecar contracts on the real functions, VCs generated from the Python AST (pyvc) discharged by z3/cvc5, Lean 4 bridge lemmas; bounded run-time enforcement of the same contracts as stand-in for the undecided clauses",
    text="Deductive part: heap contract of Accumulate (loop invariant, frame, storage ownership) [P]. Every obligation is regenerated from /repo's current AST on each run; what is not discharged is reported undecided. Bounded part (never counted as proved): seeded campaign enforcing the executable rendering of the contract on the real code with an independent oracle; floating-point clauses are decided only there.",
    note="trusted: primitive contracts of torch/numpy/qpsolvers/cvxpy used by the discharged obligations (listed in evidence.trusted_base), floats as reals, CPython set/dict semantics, pyvc soundness, Lean kernel + Mathlib",
    design_ref="DESIGN.md §3 C06",
    explanation="heap contract of Accumulate (loop invariant, frame, storage ownership) [P]",
)
reg(
    "C07",
    level="other",
    technique="contract-based deductive verification: sidecar contracts on the real functions, VCs generated from the Python AST (pyvc) discharged by z3/cvc5, Lean 4 bridge lemmas; bounded run-time enforcement of the same contracts as stand-in for the undecided clauses",
    text="Deductive part: chunk-loop invariant and ghost sweep/vmap obligations of Jac._differentiate [P]. Every obligation is regenerated from /repo's current AST on each run; what is not discharged is reported undecided. Bounded part (never counted as proved): seeded campaign enforcing the executable rendering of the contract on the real code with an independent oracle; floating-point clauses are decided only there.",
    note="trusted: primitive contracts of torch/numpy/qpsolvers/cvxpy used by the discharged obligations (listed in evidence.trusted_base), floats as reals, CPython set/dict semantics, pyvc soundness, Lean kernel + Mathlib",
    design_ref="DESIGN.md §3 C07",
    explanation="chunk-loop invariant and ghost sweep/vmap obligations of Jac._differentiate [P]",
)
reg(
    "C08",
    level="other",
    technique="contract-based deductive verification: sidecar contracts on the real functions, VCs generated from the Python AST (pyvc) discharged by z3/cvc5, Lean 4 bridge lemmas; bounded run-time enforcement of the same contracts as stand-in for the undecided clauses",
    text="Deductive part: gramAgg_* lemmas [L]; span / Gramian-only normal form of each weighting [P]. Every obligation is regenerated from /repo's current AST on each run; what is not discharged is reported undecided. Bounded part (never counted as proved): seeded campaign enforcing the executable rendering of the contract on the real code with an independent oracle; floating-point clauses are decided only there.",
    note="trusted: primitive contracts of torch/numpy/qpsolvers/cvxpy used by the discharged obligations (listed in evidence.trusted_base), floats as reals, CPython set/dict semantics, pyvc soundness, Lean kernel + Mathlib",
    design_ref="DESIGN.md §3 C08",
    explanation="gramAgg_* lemmas [L]; span / Gramian-only normal form of each weighting [P]",
)
reg(
    "C09",
    level="other",
    technique="contract-based deductive verification: sidecar contracts on the real functions, VCs generated from the Python AST (pyvc) discharged by z3/cvc5, Lean 4 bridge lemmas; bounded run-time enforcement of the same contracts as stand-in for the undecided clauses",
    text="Deductive part: lin_const, lin_pcgrad, lin_config, qpmin_row_scaling [L]. Every obligation is regenerated from /repo's current AST on each run; what is not discharged is reported undecided. Bounded part (never counted as proved): seeded campaign enforcing the executable rendering of the contract on the real code with an independent oracle; floating-point clauses are decided only there.",
    note="trusted: primitive contracts of torch/numpy/qpsolvers/cvxpy used by the discharged obligations (listed in evidence.trusted_base), floats as reals, CPython set/dict semantics, pyvc soundness, Lean kernel + Mathlib",
    design_ref="DESIGN.md §3 C09",
    explanation="lin_const, lin_pcgrad, lin_config, qpmin_row_scaling [L]",
)
reg(
    "C10",
    level="other",
    technique="contract-based deductive verification: sidecar contracts on the real functions, VCs generated from the Python AST (pyvc) discharged by z3/cvc5, Lean 4 bridge lemmas; bounded run-time enforcement of the same contracts as stand-in for the undecided clauses",
    text="Deductive part: gramAgg_perm_invariant, qpmin_perm [L]. Every obligation is regenerated from /repo's current AST on each run; what is not discharged is reported undecided. Bounded part (never counted as proved): seeded campaign enforcing the executable rendering of the contract on the real code with an independent oracle; floating-point clauses are decided only there.",
    note="trusted: primitive contracts of torch/numpy/qpsolvers/cvxpy used by the discharged obligations (listed in evidence.trusted_base), floats as reals, CPython set/dict semantics, pyvc soundness, Lean kernel + Mathlib",
    design_ref="DESIGN.md §3 C10",
    explanation="gramAgg_perm_invariant, qpmin_perm [L]",
)
reg(
    "C11",
    level="other",
    technique="contract-based deductive verification: sidecar contracts on the real functions, VCs generated from the Python AST (pyvc) discharged by z3/cvc5, Lean 4 bridge lemmas; bounded run-time enforcement of the same contracts as stand-in for the undecided clauses",
    text="Deductive part: raises-iff / dtype / shape / stateless / frame obligations per aggregator [P]; gramAgg_homogeneous [L]. Every obligation is regenerated from /repo's current AST on each run; what is not discharged is reported undecided. Bounded part (never counted as proved): seeded campaign enforcing the executable rendering of the contract on the real code with an independent oracle; floating-point clauses are decided only there.",
    note="trusted: primitive contracts of torch/numpy/qpsolvers/cvxpy used by the discharged obligations (listed in evidence.trusted_base), floats as reals, CPython set/dict semantics, pyvc soundness, Lean kernel + Mathlib",
    design_ref="DESIGN.md §3 C11",
    explanation="raises-iff / dtype / shape / stateless / frame obligations per aggregator [P]; gramAgg_homogeneous [L]",
)
reg(
    "C12",
    level="other",
    technique="contract-based deductive verification: sidecar contracts on the real functions, VCs generated from the Python AST (pyvc) discharged by z3/cvc5, Lean 4 bridge lemmas; bounded run-time enforcement of the same contracts as stand-in for the undecided clauses",
    text="Deductive part: bounded arm (BFS loop invariant pending). Every obligation is regenerated from /repo's current AST on each run; what is not discharged is reported undecided. Bounded part (never counted as proved): seeded campaign enforcing the executable rendering of the contract on the real code with an independent oracle; floating-point clauses are decided only there.",
    note="trusted: primitive contracts of torch/numpy/qpsolvers/cvxpy used by the discharged obligations (listed in evidence.trusted_base), floats as reals, CPython set/dict semantics, pyvc soundness, Lean kernel + Mathlib",
    design_ref="DESIGN.md §3 C12",
    explanation="bounded arm (BFS loop invariant pending)",
)
reg(
    "C13",
    level="other",
    technique="contract-based deductive verification: sidecar contracts on the real functions, VCs generated from the Python AST (pyvc) discharged by z3/cvc5, Lean 4 bridge lemmas; bounded run-time enforcement of the same contracts as stand-in for the undecided clauses",
    text="Deductive part: retain_graph flag obligations of Jac (only the last sweep uses the caller's flag) [P]. Every obligation is regenerated from /repo's current AST on each run; what is not discharged is reported undecided. Bounded part (never counted as proved): seeded campaign enforcing the executable rendering of the contract on the real code with an independent oracle; floating-point clauses are decided only there.",
    note="trusted: primitive contracts of torch/numpy/qpsolvers/cvxpy used by the discharged obligations (listed in evidence.trusted_base), floats as reals, CPython set/dict semantics, pyvc soundness, Lean kernel + Mathlib",
    design_ref="DESIGN.md §3 C13",
    explanation="retain_graph flag obligations of Jac (only the last sweep uses the caller's flag) [P]",
)
reg(
    "C14",
    level="other",
    technique="contract-based deductive verification: sidecar contracts on the real functions, VCs generated from the Python AST (pyvc) discharged by z3/cvc5, Lean 4 bridge lemmas; bounded run-time enforcement of the same contracts as stand-in for the undecided clauses",
    text="Deductive part: bounded/exhaustive arm (set-level contracts pending). Every obligation is regenerated from /repo's current AST on each run; what is not discharged is reported undecided. Bounded part (never counted as proved): seeded campaign enforcing the executable rendering of the contract on the real code with an independent oracle; floating-point clauses are decided only there.",
    note="trusted: primitive contracts of torch/numpy/qpsolvers/cvxpy used by the discharged obligations (listed in evidence.trusted_base), floats as reals, CPython set/dict semantics, pyvc soundness, Lean kernel + Mathlib",
    design_ref="DESIGN.md §3 C14",
    explanation="bounded/exhaustive arm (set-level contracts pending)",
)
reg(
    "C15",
    level="other",
    technique="contract-based deductive verification: sidecar contracts on the real functions, VCs generated from the Python AST (pyvc) discharged by z3/cvc5, Lean 4 bridge lemmas; bounded run-time enforcement of the same contracts as stand-in for the undecided clauses",
    text="Deductive part: per-transform contracts: Init, Diagonalize (loop invariant), Jac (chunk loop invariant, vjp spec) [P]. Every obligation is regenerated from /repo's current AST on each run; what is not discharged is reported undecided. Bounded part (never counted as proved): seeded campaign enforcing the executable rendering of the contract on the real code with an independent oracle; floating-point clauses are decided only there.",
    note="trusted: primitive contracts of torch/numpy/qpsolvers/cvxpy used by the discharged obligations (listed in evidence.trusted_base), floats as reals, CPython set/dict semantics, pyvc soundness, Lean kernel + Mathlib",
    design_ref="DESIGN.md §3 C15",
    explanation="per-transform contracts: Init, Diagonalize (loop invariant), Jac (chunk loop invariant, vjp spec) [P]",
)
reg(
    "C16",
    level="proof",
    technique="contract-based deductive verification: sidecar contracts on the real functions, VCs generated from the Python AST (pyvc) discharged by z3/cvc5, Lean 4 bridge lemmas; bounded run-time enforcement of the same contracts as stand-in for the undecided clauses",
    text="Deductive part: argument plumbing of TrimmedMean/Krum vs. spec terms, raises-iff [P]; trimmed_mean_bounds, trimmed_mean_robust, self_distance_first [L]. Every obligation is regenerated from /repo's current AST on each run; what is not discharged is reported undecided. Bounded part (never counted as proved): seeded campaign enforcing the executable rendering of the contract on the real code with an independent oracle; floating-point clauses are decided only there.",
    note="trusted: primitive contracts of torch/numpy/qpsolvers/cvxpy used by the discharged obligations (listed in evidence.trusted_base), floats as reals, CPython set/dict semantics, pyvc soundness, Lean kernel + Mathlib",
    design_ref="DESIGN.md §3 C16",
    explanation="argument plumbing of TrimmedMean/Krum vs. spec terms, raises-iff [P]; trimmed_mean_bounds, trimmed_mean_robust, self_distance_first [L]",
)
reg(
    "C17",
    level="proof",
    technique="contract-based deductive verification: sidecar contracts on the real functions, VCs generated from the Python AST (pyvc) discharged by z3/cvc5, Lean 4 bridge lemmas; bounded run-time enforcement of the same contracts as stand-in for the undecided clauses",
    text="Deductive part: definitional postconditions of IMTL-G, ConFIG, Aligned-MTL [P]; imtlg_equal_proj, config_equal_cos, amtl_orthogonal [L]. Every obligation is regenerated from /repo's current AST on each run; what is not discharged is reported undecided. Bounded part (never counted as proved): seeded campaign enforcing the executable rendering of the contract on the real code with an independent oracle; floating-point clauses are decided only there.",
    note="trusted: primitive contracts of torch/numpy/qpsolvers/cvxpy used by the discharged obligations (listed in evidence.trusted_base), floats as reals, CPython set/dict semantics, pyvc soundness, Lean kernel + Mathlib",
    design_ref="DESIGN.md §3 C17",
    explanation="definitional postconditions of IMTL-G, ConFIG, Aligned-MTL [P]; imtlg_equal_proj, config_equal_cos, amtl_orthogonal [L]",
)
reg(
    "C18",
    level="other",
    technique="contract-based deductive verification: sidecar contracts on the real functions, VCs generated from the Python AST (pyvc) discharged by z3/cvc5, Lean 4 bridge lemmas; bounded run-time enforcement of the same contracts as stand-in for the undecided clauses",
    text="Deductive part: softmax_simplex, cagrad_distance, mgda_step_descent, pcgrad_no_conflict [L]; definitional posts pending for loops. Every obligation is regenerated from /repo's current AST on each run; what is not discharged is reported undecided. Bounded part (never counted as proved): seeded campaign enforcing the executable rendering of the contract on the real code with an independent oracle; floating-point clauses are decided only there.",
    note="trusted: primitive contracts of torch/numpy/qpsolvers/cvxpy used by the discharged obligations (listed in evidence.trusted_base), floats as reals, CPython set/dict semantics, pyvc soundness, Lean kernel + Mathlib",
    design_ref="DESIGN.md §3 C18",
    explanation="softmax_simplex, cagrad_distance, mgda_step_descent, pcgrad_no_conflict [L]; definitional posts pending for loops",
)
reg(
    "C19",
    level="other",
    technique="contract-based deductive verification: sidecar contracts on the real functions, VCs generated from the Python AST (pyvc) discharged by z3/cvc5, Lean 4 bridge lemmas; bounded run-time enforcement of the same contracts as stand-in for the undecided clauses",
    text="Deductive part: bounded/exhaustive arm (object-invariant obligations pending). Every obligation is regenerated from /repo's current AST on each run; what is not discharged is reported undecided. Bounded part (never counted as proved): seeded campaign enforcing the executable rendering of the contract on the real code with an independent oracle; floating-point clauses are decided only there.",
    note="trusted: primitive contracts of torch/numpy/qpsolvers/cvxpy used by the discharged obligations (listed in evidence.trusted_base), floats as reals, CPython set/dict semantics, pyvc soundness, Lean kernel + Mathlib",
    design_ref="DESIGN.md §3 C19",
    explanation="bounded/exhaustive arm (object-invariant obligations pending)",
)
reg(
    "C20",
    level="other",
    technique="contract-based deductive verification: sidecar contracts on the real functions, VCs generated from the Python AST (pyvc) discharged by z3/cvc5, Lean 4 bridge lemmas; bounded run-time enforcement of the same contracts as stand-in for the undecided clauses",
    text="Deductive part: no-write-before-raise obligation of Accumulate [P]; bounded arm for the entry points. Every obligation is regenerated from /repo's current AST on each run; what is not discharged is reported undecided. Bounded part (never counted as proved): seeded campaign enforcing the executable rendering of the contract on the real code with an independent oracle; floating-point clauses are decided only there.",
    note="trusted: primitive contracts of torch/numpy/qpsolvers/cvxpy used by the discharged obligations (listed in evidence.trusted_base), floats as reals, CPython set/dict semantics, pyvc soundness, Lean kernel + Mathlib",
    design_ref="DESIGN.md §3 C20",
    explanation="no-write-before-raise obligation of Accumulate [P]; bounded arm for the entry points",
)
