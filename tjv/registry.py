"""Per-property registry: which arms exist, what is claimed, texts for MANIFEST.json and evidence.

MANIFEST.json is *generated* from this file by tools/gen_manifest.py, so the two never drift."""

COMMON_ASSUMPTIONS = [
    "machine floating point treated as real arithmetic in every discharged obligation (rounding, overflow, "
    "solver tolerances are covered only by the bounded arm)",
    "all tensors on one device (cpu); device= plumbing is dropped by the extraction",
    "CPython semantics assumed by the encoding: unbounded ints, identity hashing/equality of tensors in "
    "set/dict, deterministic iteration order of an unmodified set/dict, no monkey-patching, single thread",
    "torch / numpy / qpsolvers / cvxpy primitives obey their sidecar contracts (tjv/pyvc/prims.py); each is "
    "sampled against the real library by the bounded arm, never proved",
    "soundness of the pyvc symbolic executor itself (mitigated by canaries, the mutant self-test and the "
    "bounded arm run on the same tree)",
]

REGISTRY = {}


def reg(pid, **kw):
    kw.setdefault("claimed", True)
    kw.setdefault("rt", True)
    kw.setdefault("pyvc", False)
    kw.setdefault("lean", [])
    kw.setdefault("level", "other")
    kw.setdefault("assumptions", COMMON_ASSUMPTIONS)
    kw.setdefault("trusted_base", [])
    REGISTRY[pid] = kw


reg(
    "C01",
    level="other",
    technique="bounded run-time enforcement of the backward() postcondition (deductive obligations pending)",
    text="Bounded stand-in only so far: the postcondition of backward() (per-input .grad update = own slice of "
         "A(J_true), frame) is enforced on the real function over a seeded campaign of random autograd "
         "programs. Not a proof.",
    note="oracle: torch.autograd.grad row by row on a twin graph; aggregator trusted to be column-permutation "
         "equivariant (C08) because the oracle orders columns independently",
    design_ref="§3 C01",
    explanation="bounded campaign only (see coverage.bounded); no obligation is claimed discharged yet",
)
