"""Per-property registry: which arms exist, what is claimed, texts for MANIFEST.json and evidence.

MANIFEST.json is *generated* from this file by tools/gen_manifest.py, so the two never drift."""
import os

COMMON_ASSUMPTIONS = [
    "machine floating point treated as real arithmetic in every discharged obligation (rounding, overflow, solver tolerances are covered only by the bounded arm)",
    "all tensors on one device (cpu); device= plumbing is dropped by the extraction",
    "CPython semantics assumed by the encoding: unbounded ints, identity hashing/equality of tensors in set/dict, deterministic iteration order of an unmodified set/dict, no monkey-patching, single thread, nn.Module.__call__(x) = forward(x) (no hooks)",
    "torch / numpy / qpsolvers / cvxpy primitives obey their sidecar contracts (tjv/pyvc/prims.py, aten.py, lten.py, cvx.py); each is exercised against the real library by the bounded arm, never proved",
    "soundness of the pyvc symbolic executor and agreement of the z3 / Lean / executable renderings of each contract clause (mitigated by cover queries, the seeded-change runs and the bounded arm on the same tree)",
]

REGISTRY = {}
_HERE = os.path.dirname(os.path.abspath(__file__))


def reg(pid, **kw):
    kw.setdefault("claimed", True)
    kw.setdefault("rt", True)
    kw.setdefault("pyvc", os.path.exists(os.path.join(_HERE, "contracts", pid + ".py")))
    kw.setdefault("lean", True)
    kw.setdefault("level", "other")
    kw.setdefault("assumptions", COMMON_ASSUMPTIONS)
    kw.setdefault("trusted_base", [])
    REGISTRY[pid] = kw

reg(
    "C01",
    level="proof",
    technique="contract-based deductive verification: sidecar contracts on the real functions; VCs generated from the Python AST of /repo (pyvc symbolic executor, loop invariants) discharged by z3 (cvc5 cross-check in thorough); Lean 4 + Mathlib bridge lemmas; bounded run-time enforcement of the same contracts as stand-in for undecided / floating-point clauses",
    text="Deductive: backward() verified against the proved summaries of Diagonalize / Jac / Aggregate / Accumulate (modular: caller checked against callee contracts): aggregator input = true Jacobian with columns in the set's iteration order, per-input .grad update = own slice of A(J), frame, no raise on valid calls \u2014 for symbolic numbers of tensors/inputs of arbitrary shapes, an abstract aggregator, any chunk size / retain flag / pre-existing .grad. The summaries themselves are the C15/C06 obligations (loop invariants for Diagonalize.__init__, the chunk loop of Jac, _disunite, Accumulate). [L] vecMul_rows_of_linear. Obligations are regenerated from /repo's current AST on every run; the level is 'proof' only when every generated obligation is discharged (otherwise the evidence says 'other' and lists the undecided ones). Bounded stand-in (never counted as proved): seeded campaign enforcing the executable rendering of the contract on the real code with an independent oracle; floating-point clauses are decided only there.",
    note="autograd theory [T] (torch.autograd.grad / vmap contracts; DJ is 'what PyTorch differentiates': total derivative through several paths is PyTorch's property, validated by the bounded arm only); precondition: tensors non-empty, duplicate-free, >= 1 scalar in total; order independence holds because the code turns `inputs` into a set (the result is stated over set(inputs)); floats as reals; CPython set/dict semantics; pyvc soundness; Lean kernel + Mathlib",
    design_ref="DESIGN.md §3 C01",
    explanation="backward() verified against the proved summaries of Diagonalize / Jac / Aggregate / Accumulate (modular: caller checked against callee contracts): aggregator input = true Jacobian with columns in the set's iteration order, per-input .grad update = own slice of A(J), frame, no raise on valid calls \u2014 for symbolic numbers of tensors/inputs of arbitrary shapes, an abstract aggregator, any chunk size / retain flag / pre-existing .grad. The summaries themselves are the C15/C06 obligations (loop invariants for Diagonalize.__init__, the chunk loop of Jac, _disunite, Accumulate). [L] vecMul_rows_of_linear.",
)
reg(
    "C02",
    level="other",
    technique="contract-based deductive verification: sidecar contracts on the real functions; VCs generated from the Python AST of /repo (pyvc symbolic executor, loop invariants) discharged by z3 (cvc5 cross-check in thorough); Lean 4 + Mathlib bridge lemmas; bounded run-time enforcement of the same contracts as stand-in for undecided / floating-point clauses",
    text="Deductive: pipeline-structure contract of mtl_backward for t = 2, 3 tasks (BOUNDED in t; parameter lists symbolic): the real function builds exactly Accumulate(shared) << Aggregate(A, shared) << Jac(features -> shared, chunk, retain) << Stack([ (Select(features) | Accumulate(TP_i) << Select(TP_i)) << Grad([loss_i], TP_i + features, retain) << Init([loss_i]) for i in order ]) and runs it once; each transform's contract is proved in C15/C06 (Stack: row i comes from dict i); thorough tier adds the end-to-end check for t = 1. Obligations are regenerated from /repo's current AST on every run; the level is 'proof' only when every generated obligation is discharged (otherwise the evidence says 'other' and lists the undecided ones). Bounded stand-in (never counted as proved): seeded campaign enforcing the executable rendering of the contract on the real code with an independent oracle; floating-point clauses are decided only there.",
    note="the composition of the proved per-transform contracts into the statement (chain rule through the features) is an argument on paper (DESIGN \u00a73 C02) plus the bounded arm; bounded in the number of tasks; floats as reals; CPython set/dict semantics; pyvc soundness; Lean kernel + Mathlib",
    design_ref="DESIGN.md §3 C02",
    explanation="pipeline-structure contract of mtl_backward for t = 2, 3 tasks (BOUNDED in t; parameter lists symbolic): the real function builds exactly Accumulate(shared) << Aggregate(A, shared) << Jac(features -> shared, chunk, retain) << Stack([ (Select(features) | Accumulate(TP_i) << Select(TP_i)) << Grad([loss_i], TP_i + features, retain) << Init([loss_i]) for i in order ]) and runs it once; each transform's contract is proved in C15/C06 (Stack: row i comes from dict i); thorough tier adds the end-to-end check for t = 1.",
)
reg(
    "C03",
    level="proof",
    technique="contract-based deductive verification: sidecar contracts on the real functions; VCs generated from the Python AST of /repo (pyvc symbolic executor, loop invariants) discharged by z3 (cvc5 cross-check in thorough); Lean 4 + Mathlib bridge lemmas; bounded run-time enforcement of the same contracts as stand-in for undecided / floating-point clauses",
    text="Deductive: end-to-end spec comparison of UPGrad / DualProj (real constructors + forward, every helper inlined from its AST) with the regularised normalised Gramian + row-wise QP spec, for symbolic norm_eps / reg_eps / pref_vector; raises-iff; dtype. [L] svd_gram, qpgen_to_qpmin, qpmin_unique, qpmin_nonconflict(_eq), small_sigma, qpmin_is_projection. Obligations are regenerated from /repo's current AST on every run; the level is 'proof' only when every generated obligation is discharged (otherwise the evidence says 'other' and lists the undecided ones). Bounded stand-in (never counted as proved): seeded campaign enforcing the executable rendering of the contract on the real code with an independent oracle; floating-point clauses are decided only there.",
    note="qpsolvers.solve_qp returns the exact minimiser or None [T]; SVD contract [T]; solver accuracy and float32/float64 round trips only in the bounded arm; floats as reals; CPython set/dict semantics; pyvc soundness; Lean kernel + Mathlib",
    design_ref="DESIGN.md §3 C03",
    explanation="end-to-end spec comparison of UPGrad / DualProj (real constructors + forward, every helper inlined from its AST) with the regularised normalised Gramian + row-wise QP spec, for symbolic norm_eps / reg_eps / pref_vector; raises-iff; dtype. [L] svd_gram, qpgen_to_qpmin, qpmin_unique, qpmin_nonconflict(_eq), small_sigma, qpmin_is_projection.",
)
reg(
    "C04",
    level="proof",
    technique="contract-based deductive verification: sidecar contracts on the real functions; VCs generated from the Python AST of /repo (pyvc symbolic executor, loop invariants) discharged by z3 (cvc5 cross-check in thorough); Lean 4 + Mathlib bridge lemmas; bounded run-time enforcement of the same contracts as stand-in for undecided / floating-point clauses",
    text="Deductive: weights of UPGrad/DualProj are QP minimisers (C03 contracts); MGDA's Frank-Wolfe loop contract: simplex invariant, non-increasing norm, every iteration an exact-line-search step towards argmin(G alpha); CAGrad solves the stated conic problem (definitional contract). [L] qp_min_Gw_nonneg, upgrad_allowance, dualproj_allowance, upgrad_sum_allowance, hull_allowance, fw_rate, cagrad_dual \u2014 all proved in Lean. Obligations are regenerated from /repo's current AST on every run; the level is 'proof' only when every generated obligation is discharged (otherwise the evidence says 'other' and lists the undecided ones). Bounded stand-in (never counted as proved): seeded campaign enforcing the executable rendering of the contract on the real code with an independent oracle; floating-point clauses are decided only there.",
    note="CLARABEL / quadprog exactness [T]; real-vector algebra laws used by the MGDA invariant [T]; tolerances and floating point only in the bounded arm (exhaustive {-1,0,1} matrices up to 3x3 in thorough); floats as reals; CPython set/dict semantics; pyvc soundness; Lean kernel + Mathlib",
    design_ref="DESIGN.md §3 C04",
    explanation="weights of UPGrad/DualProj are QP minimisers (C03 contracts); MGDA's Frank-Wolfe loop contract: simplex invariant, non-increasing norm, every iteration an exact-line-search step towards argmin(G alpha); CAGrad solves the stated conic problem (definitional contract). [L] qp_min_Gw_nonneg, upgrad_allowance, dualproj_allowance, upgrad_sum_allowance, hull_allowance, fw_rate, cagrad_dual \u2014 all proved in Lean.",
)
reg(
    "C05",
    level="proof",
    technique="contract-based deductive verification: sidecar contracts on the real functions; VCs generated from the Python AST of /repo (pyvc symbolic executor, loop invariants) discharged by z3 (cvc5 cross-check in thorough); Lean 4 + Mathlib bridge lemmas; bounded run-time enforcement of the same contracts as stand-in for undecided / floating-point clauses",
    text="Deductive: Constant / Sum / Mean: real constructor + forward return w @ J with the configured weights / ones / 1/m, reject wrong row counts [P]; [L] vecMul_rows_of_linear, linear_agg_eq_vjp turn the C01/C02 postconditions into 'what torch.autograd.backward(tensors, grad_tensors=w) deposits'. Obligations are regenerated from /repo's current AST on every run; the level is 'proof' only when every generated obligation is discharged (otherwise the evidence says 'other' and lists the undecided ones). Bounded stand-in (never counted as proved): seeded campaign enforcing the executable rendering of the contract on the real code with an independent oracle; floating-point clauses are decided only there.",
    note="contract of torch.autograd.backward [T]; comparison against torch.autograd on twin graphs is the bounded arm; floats as reals; CPython set/dict semantics; pyvc soundness; Lean kernel + Mathlib",
    design_ref="DESIGN.md §3 C05",
    explanation="Constant / Sum / Mean: real constructor + forward return w @ J with the configured weights / ones / 1/m, reject wrong row counts [P]; [L] vecMul_rows_of_linear, linear_agg_eq_vjp turn the C01/C02 postconditions into 'what torch.autograd.backward(tensors, grad_tensors=w) deposits'.",
)
reg(
    "C06",
    level="proof",
    technique="contract-based deductive verification: sidecar contracts on the real functions; VCs generated from the Python AST of /repo (pyvc symbolic executor, loop invariants) discharged by z3 (cvc5 cross-check in thorough); Lean 4 + Mathlib bridge lemmas; bounded run-time enforcement of the same contracts as stand-in for undecided / floating-point clauses",
    text="Deductive: heap contract of Accumulate._compute: loop invariant over the keys (in-place add when .grad exists, owned clone otherwise), frame (every other tensor's .grad / storage unchanged), no write before a rejection, storage ownership of freshly created .grad; backward()'s frame obligation (C01.backward.post.frame). Obligations are regenerated from /repo's current AST on every run; the level is 'proof' only when every generated obligation is discharged (otherwise the evidence says 'other' and lists the undecided ones). Bounded stand-in (never counted as proved): seeded campaign enforcing the executable rendering of the contract on the real code with an independent oracle; floating-point clauses are decided only there.",
    note="torch.autograd.grad writes no .grad [T]; k-fold accumulation follows from the contract being proved for an arbitrary pre-heap; data (not .grad) immutability of all tensors is checked by the bounded arm; floats as reals; CPython set/dict semantics; pyvc soundness; Lean kernel + Mathlib",
    design_ref="DESIGN.md §3 C06",
    explanation="heap contract of Accumulate._compute: loop invariant over the keys (in-place add when .grad exists, owned clone otherwise), frame (every other tensor's .grad / storage unchanged), no write before a rejection, storage ownership of freshly created .grad; backward()'s frame obligation (C01.backward.post.frame).",
)
reg(
    "C07",
    level="proof",
    technique="contract-based deductive verification: sidecar contracts on the real functions; VCs generated from the Python AST of /repo (pyvc symbolic executor, loop invariants) discharged by z3 (cvc5 cross-check in thorough); Lean 4 + Mathlib bridge lemmas; bounded run-time enforcement of the same contracts as stand-in for undecided / floating-point clauses",
    text="Deductive: Jac._differentiate chunk-loop invariant: the stacked chunks are exactly the spec rows for EVERY chunk size; ghost obligations: exactly one sweep per chunk, ceil(m/k) chunks of at most k rows, vmap entered only for chunks of > 1 rows (so k = 1 and single rows are sequential); backward(): the caller's chunk size reaches the single Jac unchanged. Obligations are regenerated from /repo's current AST on every run; the level is 'proof' only when every generated obligation is discharged (otherwise the evidence says 'other' and lists the undecided ones). Bounded stand-in (never counted as proved): seeded campaign enforcing the executable rendering of the contract on the real code with an independent oracle; floating-point clauses are decided only there.",
    note="torch.vmap / math.ceil contracts [T]; mtl_backward's plumbing is in C02's pipeline-structure contract; sweep counting on the real code is the bounded arm ((m,k) exhaustive for m <= 12 in thorough); floats as reals; CPython set/dict semantics; pyvc soundness; Lean kernel + Mathlib",
    design_ref="DESIGN.md §3 C07",
    explanation="Jac._differentiate chunk-loop invariant: the stacked chunks are exactly the spec rows for EVERY chunk size; ghost obligations: exactly one sweep per chunk, ceil(m/k) chunks of at most k rows, vmap entered only for chunks of > 1 rows (so k = 1 and single rows are sequential); backward(): the caller's chunk size reaches the single Jac unchanged.",
)
reg(
    "C08",
    level="proof",
    technique="contract-based deductive verification: sidecar contracts on the real functions; VCs generated from the Python AST of /repo (pyvc symbolic executor, loop invariants) discharged by z3 (cvc5 cross-check in thorough); Lean 4 + Mathlib bridge lemmas; bounded run-time enforcement of the same contracts as stand-in for undecided / floating-point clauses",
    text="Deductive: for every listed aggregator: result = weights @ J (span) and the spec weights are written only with Gramian-determined terms; real constructor + forward compared end to end (incl. PCGrad / MGDA loop contracts, CAGrad). [L] gramAgg_orthogonal, gramAgg_isometry, gramAgg_col_perm, gramAgg_zero_cols, gramAgg_mem_rowSpan. Obligations are regenerated from /repo's current AST on every run; the level is 'proof' only when every generated obligation is discharged (otherwise the evidence says 'other' and lists the undecided ones). Bounded stand-in (never counted as proved): seeded campaign enforcing the executable rendering of the contract on the real code with an independent oracle; floating-point clauses are decided only there.",
    note="Gramian-determinedness of row norms / cdist / SVD of J [T + svd_gram]; TrimmedMean / GradDrop column-wise behaviour and rank-ambiguity only in the bounded arm; floats as reals; CPython set/dict semantics; pyvc soundness; Lean kernel + Mathlib",
    design_ref="DESIGN.md §3 C08",
    explanation="for every listed aggregator: result = weights @ J (span) and the spec weights are written only with Gramian-determined terms; real constructor + forward compared end to end (incl. PCGrad / MGDA loop contracts, CAGrad). [L] gramAgg_orthogonal, gramAgg_isometry, gramAgg_col_perm, gramAgg_zero_cols, gramAgg_mem_rowSpan.",
)
reg(
    "C09",
    level="proof",
    technique="contract-based deductive verification: sidecar contracts on the real functions; VCs generated from the Python AST of /repo (pyvc symbolic executor, loop invariants) discharged by z3 (cvc5 cross-check in thorough); Lean 4 + Mathlib bridge lemmas; bounded run-time enforcement of the same contracts as stand-in for undecided / floating-point clauses",
    text="Deductive: Mean/Sum/Constant/Random weights do not mention J; ConFIG definitional contract (unit rows before pinv; length = sum of projections); PCGrad nested-loop contract (weights are ratios of Gramian entries); UPGrad end-to-end contract. [L] lin_const*, lin_config, unit_row_scale_invariant, lin_pcgrad, qpmin_row_scaling. Obligations are regenerated from /repo's current AST on every run; the level is 'proof' only when every generated obligation is discharged (otherwise the evidence says 'other' and lists the undecided ones). Bounded stand-in (never counted as proved): seeded campaign enforcing the executable rendering of the contract on the real code with an independent oracle; floating-point clauses are decided only there.",
    note="UPGrad's sqrt(reg_eps) defect bound is decided by the bounded arm only; floats as reals; CPython set/dict semantics; pyvc soundness; Lean kernel + Mathlib",
    design_ref="DESIGN.md §3 C09",
    explanation="Mean/Sum/Constant/Random weights do not mention J; ConFIG definitional contract (unit rows before pinv; length = sum of projections); PCGrad nested-loop contract (weights are ratios of Gramian entries); UPGrad end-to-end contract. [L] lin_const*, lin_config, unit_row_scale_invariant, lin_pcgrad, qpmin_row_scaling.",
)
reg(
    "C10",
    level="proof",
    technique="contract-based deductive verification: sidecar contracts on the real functions; VCs generated from the Python AST of /repo (pyvc symbolic executor, loop invariants) discharged by z3 (cvc5 cross-check in thorough); Lean 4 + Mathlib bridge lemmas; bounded run-time enforcement of the same contracts as stand-in for undecided / floating-point clauses",
    text="Deductive: definitional contracts of all listed aggregators with the preference / weight / leak vector aligned with the rows [P]; [L] gramAgg_perm_invariant, qpmin_perm, qpmin_perm_unique. Obligations are regenerated from /repo's current AST on every run; the level is 'proof' only when every generated obligation is discharged (otherwise the evidence says 'other' and lists the undecided ones). Bounded stand-in (never counted as proved): seeded campaign enforcing the executable rendering of the contract on the real code with an independent oracle; floating-point clauses are decided only there.",
    note="permutation equivariance of pinv / eigh / sort / topk / conic solver absent ties [T]; exhaustive permutations only in the bounded arm; floats as reals; CPython set/dict semantics; pyvc soundness; Lean kernel + Mathlib",
    design_ref="DESIGN.md §3 C10",
    explanation="definitional contracts of all listed aggregators with the preference / weight / leak vector aligned with the rows [P]; [L] gramAgg_perm_invariant, qpmin_perm, qpmin_perm_unique.",
)
reg(
    "C11",
    level="proof",
    technique="contract-based deductive verification: sidecar contracts on the real functions; VCs generated from the Python AST of /repo (pyvc symbolic executor, loop invariants) discharged by z3 (cvc5 cross-check in thorough); Lean 4 + Mathlib bridge lemmas; bounded run-time enforcement of the same contracts as stand-in for undecided / floating-point clauses",
    text="Deductive: per aggregator: raises ValueError iff the input is invalid, dtype and shape of the result, statelessness (no store into self), frame (in-place only on fresh values), definitional post; IMTL-G's guard is scale-free (relational obligation on the guard read from the AST). [L] gramAgg_homogeneous. Obligations are regenerated from /repo's current AST on every run; the level is 'proof' only when every generated obligation is discharged (otherwise the evidence says 'other' and lists the undecided ones). Bounded stand-in (never counted as proved): seeded campaign enforcing the executable rendering of the contract on the real code with an independent oracle; floating-point clauses are decided only there.",
    note="finiteness over 27 decades, input bitwise unchanged, history independence on the real code: bounded arm only; floats as reals; CPython set/dict semantics; pyvc soundness; Lean kernel + Mathlib",
    design_ref="DESIGN.md §3 C11",
    explanation="per aggregator: raises ValueError iff the input is invalid, dtype and shape of the result, statelessness (no store into self), frame (in-place only on fresh values), definitional post; IMTL-G's guard is scale-free (relational obligation on the guard read from the AST). [L] gramAgg_homogeneous.",
)
reg(
    "C12",
    level="proof",
    technique="contract-based deductive verification: sidecar contracts on the real functions; VCs generated from the Python AST of /repo (pyvc symbolic executor, loop invariants) discharged by z3 (cvc5 cross-check in thorough); Lean 4 + Mathlib bridge lemmas; bounded run-time enforcement of the same contracts as stand-in for undecided / floating-point clauses",
    text="Deductive: _get_descendant_accumulate_grads verified against the reachability spec (least set containing the non-excluded roots, closed under non-excluded (child, output index) edges): while-loop and inner for-loop invariants, least-fixed-point induction instantiated at the final visited set, result = AccumulateGrad nodes reached; _get_leaf_tensors maps roots/excluded tensors to (grad_fn, output_nr) edges and the reached accumulators to their .variable; plumbing contract of the defaults: backward(inputs=None) discovers from exactly the given tensors with nothing excluded and accumulates into exactly the discovered set; mtl_backward discovers shared parameters from the features (nothing excluded) and task parameters from each loss with exactly the features excluded, and rejects overlapping sets with ValueError. Obligations are regenerated from /repo's current AST on every run; the level is 'proof' only when every generated obligation is discharged (otherwise the evidence says 'other' and lists the undecided ones). Bounded stand-in (never counted as proved): seeded campaign enforcing the executable rendering of the contract on the real code with an independent oracle; floating-point clauses are decided only there.",
    note="termination of the traversal is not proved; the deque is abstracted to the set of queued nodes; the autograd graph (next_functions, AccumulateGrad.variable, grad_fn/output_nr) is PyTorch's [T], exercised by the bounded arm (random DAGs with multi-output ops vs an independent edge-level DFS); floats as reals; CPython set/dict semantics; pyvc soundness; Lean kernel + Mathlib",
    design_ref="DESIGN.md §3 C12",
    explanation="_get_descendant_accumulate_grads verified against the reachability spec (least set containing the non-excluded roots, closed under non-excluded (child, output index) edges): while-loop and inner for-loop invariants, least-fixed-point induction instantiated at the final visited set, result = AccumulateGrad nodes reached; _get_leaf_tensors maps roots/excluded tensors to (grad_fn, output_nr) edges and the reached accumulators to their .variable; plumbing contract of the defaults: backward(inputs=None) discovers from exactly the given tensors with nothing excluded and accumulates into exactly the discovered set; mtl_backward discovers shared parameters from the features (nothing excluded) and task parameters from each loss with exactly the features excluded, and rejects overlapping sets with ValueError.",
)
reg(
    "C13",
    level="proof",
    technique="contract-based deductive verification: sidecar contracts on the real functions; VCs generated from the Python AST of /repo (pyvc symbolic executor, loop invariants) discharged by z3 (cvc5 cross-check in thorough); Lean 4 + Mathlib bridge lemmas; bounded run-time enforcement of the same contracts as stand-in for undecided / floating-point clauses",
    text="Deductive: Jac._differentiate: every sweep but the last retains the graph, the last uses Jac.retain_graph (ghost obligations, any chunk size); Grad forwards its flag; backward() passes the caller's flag to the single Jac; mtl_backward's flags in C02's pipeline-structure contract. Obligations are regenerated from /repo's current AST on every run; the level is 'proof' only when every generated obligation is discharged (otherwise the evidence says 'other' and lists the undecided ones). Bounded stand-in (never counted as proved): seeded campaign enforcing the executable rendering of the contract on the real code with an independent oracle; floating-point clauses are decided only there.",
    note="which buffers a sweep frees is PyTorch behaviour [T]: histories of <= 3 calls against a torch.autograd twin in the bounded arm; floats as reals; CPython set/dict semantics; pyvc soundness; Lean kernel + Mathlib",
    design_ref="DESIGN.md §3 C13",
    explanation="Jac._differentiate: every sweep but the last retains the graph, the last uses Jac.retain_graph (ghost obligations, any chunk size); Grad forwards its flag; backward() passes the caller's flag to the single Jac; mtl_backward's flags in C02's pipeline-structure contract.",
)
reg(
    "C14",
    level="proof",
    technique="contract-based deductive verification: sidecar contracts on the real functions; VCs generated from the Python AST of /repo (pyvc symbolic executor, loop invariants) discharged by z3 (cvc5 cross-check in thorough); Lean 4 + Mathlib bridge lemmas; bounded run-time enforcement of the same contracts as stand-in for undecided / floating-point clauses",
    text="Deductive: set-level contracts, unbounded in the key universe: Composition.__init__ raises iff key sets differ; Conjunction.__init__ (1-3 members) raises iff required sets differ or outputs overlap (cardinality argument proved via inclusion-exclusion); Transform.__call__ raises iff keys differ, before _compute; Select; declared keys of every transform; _union type = least common ancestor for all class pairs [E]; immutability as class-attribute obligations; shape rules of Gradients / Jacobians / JacobianMatrices / GradientVectors (raise iff a value contradicts the rule, symbolic sizes); Stack.__init__ (1-3 members) raises iff required sets differ, output = union. Obligations are regenerated from /repo's current AST on every run; the level is 'proof' only when every generated obligation is discharged (otherwise the evidence says 'other' and lists the undecided ones). Bounded stand-in (never counted as proved): seeded campaign enforcing the executable rendering of the contract on the real code with an independent oracle; floating-point clauses are decided only there.",
    note="bounded in the number of conjunction / stack members (<= 3); associativity/commutativity: exhaustive bounded arm (terms over 3 keys up to depth 3); values of the wrong rank are covered structurally only; floats as reals; CPython set/dict semantics; pyvc soundness; Lean kernel + Mathlib",
    design_ref="DESIGN.md §3 C14",
    explanation="set-level contracts, unbounded in the key universe: Composition.__init__ raises iff key sets differ; Conjunction.__init__ (1-3 members) raises iff required sets differ or outputs overlap (cardinality argument proved via inclusion-exclusion); Transform.__call__ raises iff keys differ, before _compute; Select; declared keys of every transform; _union type = least common ancestor for all class pairs [E]; immutability as class-attribute obligations; shape rules of Gradients / Jacobians / JacobianMatrices / GradientVectors (raise iff a value contradicts the rule, symbolic sizes); Stack.__init__ (1-3 members) raises iff required sets differ, output = union.",
)
reg(
    "C15",
    level="proof",
    technique="contract-based deductive verification: sidecar contracts on the real functions; VCs generated from the Python AST of /repo (pyvc symbolic executor, loop invariants) discharged by z3 (cvc5 cross-check in thorough); Lean 4 + Mathlib bridge lemmas; bounded run-time enforcement of the same contracts as stand-in for undecided / floating-point clauses",
    text="Deductive: isolated contracts of Init, Diagonalize (offset loop invariant), Jac (chunk loop invariant, vjp spec), Aggregate (_disunite loop invariant, aggregator input and per-key slices), Grad, Select, Stack (t = 2, 3), _materialize (loop invariant); layout lemmas (prefix-sum monotonicity, block lookup) proved by induction on every run. Obligations are regenerated from /repo's current AST on every run; the level is 'proof' only when every generated obligation is discharged (otherwise the evidence says 'other' and lists the undecided ones). Bounded stand-in (never counted as proved): seeded campaign enforcing the executable rendering of the contract on the real code with an independent oracle; floating-point clauses are decided only there.",
    note="autograd theory [T]; 'chaining two of them equals differentiating end to end' is the chain rule of PyTorch [T], validated by the bounded arm; floats as reals; CPython set/dict semantics; pyvc soundness; Lean kernel + Mathlib",
    design_ref="DESIGN.md §3 C15",
    explanation="isolated contracts of Init, Diagonalize (offset loop invariant), Jac (chunk loop invariant, vjp spec), Aggregate (_disunite loop invariant, aggregator input and per-key slices), Grad, Select, Stack (t = 2, 3), _materialize (loop invariant); layout lemmas (prefix-sum monotonicity, block lookup) proved by induction on every run.",
)
reg(
    "C16",
    level="proof",
    technique="contract-based deductive verification: sidecar contracts on the real functions; VCs generated from the Python AST of /repo (pyvc symbolic executor, loop invariants) discharged by z3 (cvc5 cross-check in thorough); Lean 4 + Mathlib bridge lemmas; bounded run-time enforcement of the same contracts as stand-in for undecided / floating-point clauses",
    text="Deductive: TrimmedMean / Krum argument plumbing vs. spec terms (sort/narrow/mean; cdist with the exact compute mode, topk(m-f-2+1, smallest), drop self, row sums, topk(k), one_hot average), raises-iff, constructors. [L] trimmed_mean_bounds, trimmed_mean_robust, self_distance_first, bottomK_sum_le. Obligations are regenerated from /repo's current AST on every run; the level is 'proof' only when every generated obligation is discharged (otherwise the evidence says 'other' and lists the undecided ones). Bounded stand-in (never counted as proved): seeded campaign enforcing the executable rendering of the contract on the real code with an independent oracle; floating-point clauses are decided only there.",
    note="sort / topk / cdist / one_hot documentation [T]; floats as reals; CPython set/dict semantics; pyvc soundness; Lean kernel + Mathlib",
    design_ref="DESIGN.md §3 C16",
    explanation="TrimmedMean / Krum argument plumbing vs. spec terms (sort/narrow/mean; cdist with the exact compute mode, topk(m-f-2+1, smallest), drop self, row sums, topk(k), one_hot average), raises-iff, constructors. [L] trimmed_mean_bounds, trimmed_mean_robust, self_distance_first, bottomK_sum_le.",
)
reg(
    "C17",
    level="proof",
    technique="contract-based deductive verification: sidecar contracts on the real functions; VCs generated from the Python AST of /repo (pyvc symbolic executor, loop invariants) discharged by z3 (cvc5 cross-check in thorough); Lean 4 + Mathlib bridge lemmas; bounded run-time enforcement of the same contracts as stand-in for undecided / floating-point clauses",
    text="Deductive: definitional contracts of IMTL-G, ConFIG (pref_vector used), Aligned-MTL (rank by tolerance len(M)*eps*max, balance transformation) [P]; [L] imtlg_equal_proj, config_equal_cos, config_length, amtl_orthogonal, amtl_output. Obligations are regenerated from /repo's current AST on every run; the level is 'proof' only when every generated obligation is discharged (otherwise the evidence says 'other' and lists the undecided ones). Bounded stand-in (never counted as proved): seeded campaign enforcing the executable rendering of the contract on the real code with an independent oracle; floating-point clauses are decided only there.",
    note="pinv / eigh contracts [T]; conditioning only in the bounded arm; floats as reals; CPython set/dict semantics; pyvc soundness; Lean kernel + Mathlib",
    design_ref="DESIGN.md §3 C17",
    explanation="definitional contracts of IMTL-G, ConFIG (pref_vector used), Aligned-MTL (rank by tolerance len(M)*eps*max, balance transformation) [P]; [L] imtlg_equal_proj, config_equal_cos, config_length, amtl_orthogonal, amtl_output.",
)
reg(
    "C18",
    level="proof",
    technique="contract-based deductive verification: sidecar contracts on the real functions; VCs generated from the Python AST of /repo (pyvc symbolic executor, loop invariants) discharged by z3 (cvc5 cross-check in thorough); Lean 4 + Mathlib bridge lemmas; bounded run-time enforcement of the same contracts as stand-in for undecided / floating-point clauses",
    text="Deductive: MGDA Frank-Wolfe loop contract (simplex, non-increasing norm, exact line search), PCGrad nested-loop contract (spec recursion in weight space, projection tested against the CURRENT vector, for an arbitrary permutation), GradDrop partial-sum invariant with an arbitrary purity transform f and leak, CAGrad conic problem and combination formula, Random = softmax of one Gaussian draw. [L] softmax_simplex, cagrad_distance, cagrad_c_zero, mgda_step_descent, pcStep_*, pcgrad_no_conflict. Obligations are regenerated from /repo's current AST on every run; the level is 'proof' only when every generated obligation is discharged (otherwise the evidence says 'other' and lists the undecided ones). Bounded stand-in (never counted as proved): seeded campaign enforcing the executable rendering of the contract on the real code with an independent oracle; floating-point clauses are decided only there.",
    note="conic solver exactness, RNG primitives [T]; floats as reals; CPython set/dict semantics; pyvc soundness; Lean kernel + Mathlib",
    design_ref="DESIGN.md §3 C18",
    explanation="MGDA Frank-Wolfe loop contract (simplex, non-increasing norm, exact line search), PCGrad nested-loop contract (spec recursion in weight space, projection tested against the CURRENT vector, for an arbitrary permutation), GradDrop partial-sum invariant with an arbitrary purity transform f and leak, CAGrad conic problem and combination formula, Random = softmax of one Gaussian draw. [L] softmax_simplex, cagrad_distance, cagrad_c_zero, mgda_step_descent, pcStep_*, pcgrad_no_conflict.",
)
reg(
    "C19",
    level="proof",
    technique="contract-based deductive verification: sidecar contracts on the real functions; VCs generated from the Python AST of /repo (pyvc symbolic executor, loop invariants) discharged by z3 (cvc5 cross-check in thorough); Lean 4 + Mathlib bridge lemmas; bounded run-time enforcement of the same contracts as stand-in for undecided / floating-point clauses",
    text="Deductive: reset() restores exactly the constructor state; solver fields are dead at step 0 (rewritten before read); step counter +1 per call, recompute iff step % k == 0, reuse keeps the stored weights; operand kinds (the former TypeError); max_norm rescaling formula; _solve_optimization verified against the contract forward assumes for it (loop invariant: alpha_t is an ndarray of n_tasks entries, never None; writes only prvs_alpha; returns the stored object; parameters receive gtg and the factor); _init_optim_problem builds the cvxpy objects that contract presupposes (n = 2); NashMTL.__init__ passes its parameters through unpermuted and NashMTL.reset resets its own weighting. Obligations are regenerated from /repo's current AST on every run; the level is 'proof' only when every generated obligation is discharged (otherwise the evidence says 'other' and lists the undecided ones). Bounded stand-in (never counted as proved): seeded campaign enforcing the executable rendering of the contract on the real code with an independent oracle; floating-point clauses are decided only there.",
    note="forward is verified against the contracts of _solve_optimization (itself proved) and _init_optim_problem (proved for n = 2 only: its constraint loop is unrolled); cp.Problem.solve may raise or leave .value None, its numeric result is an uninterpreted term; ECOS determinism [T]; 'reset = fresh on every history' on the real code is the exhaustive bounded arm (histories <= 5); floats as reals; CPython set/dict semantics; pyvc soundness; Lean kernel + Mathlib",
    design_ref="DESIGN.md §3 C19",
    explanation="reset() restores exactly the constructor state; solver fields are dead at step 0 (rewritten before read); step counter +1 per call, recompute iff step % k == 0, reuse keeps the stored weights; operand kinds (the former TypeError); max_norm rescaling formula; _solve_optimization verified against the contract forward assumes for it (loop invariant: alpha_t is an ndarray of n_tasks entries, never None; writes only prvs_alpha; returns the stored object; parameters receive gtg and the factor); _init_optim_problem builds the cvxpy objects that contract presupposes (n = 2); NashMTL.__init__ passes its parameters through unpermuted and NashMTL.reset resets its own weighting.",
)
reg(
    "C20",
    level="proof",
    technique="contract-based deductive verification: sidecar contracts on the real functions; VCs generated from the Python AST of /repo (pyvc symbolic executor, loop invariants) discharged by z3 (cvc5 cross-check in thorough); Lean 4 + Mathlib bridge lemmas; bounded run-time enforcement of the same contracts as stand-in for undecided / floating-point clauses",
    text="Deductive: backward() on ARBITRARY arguments: on every path ending in a raise no .grad has been written (heap at the raise = entry heap); every listed invalid argument is rejected with ValueError; Accumulate checks all keys before the first store; mtl_backward (t = 1 quick, t = 2 thorough) rejects every listed invalid call with ValueError before any differentiation and with the entry heap intact. Obligations are regenerated from /repo's current AST on every run; the level is 'proof' only when every generated obligation is discharged (otherwise the evidence says 'other' and lists the undecided ones). Bounded stand-in (never counted as proved): seeded campaign enforcing the executable rendering of the contract on the real code with an independent oracle; floating-point clauses are decided only there.",
    note="mtl_backward's rejection contract is bounded in the number of tasks (1, 2); every invalid-argument kind x position also in the bounded arm; floats as reals; CPython set/dict semantics; pyvc soundness; Lean kernel + Mathlib",
    design_ref="DESIGN.md §3 C20",
    explanation="backward() on ARBITRARY arguments: on every path ending in a raise no .grad has been written (heap at the raise = entry heap); every listed invalid argument is rejected with ValueError; Accumulate checks all keys before the first store; mtl_backward (t = 1 quick, t = 2 thorough) rejects every listed invalid call with ValueError before any differentiation and with the entry heap intact.",
)
