#!/usr/bin/env bash
# Axiom audit of the TorchJDSpec library.
#
#   ./audit.sh                prints `#print axioms <name>` for every theorem of theorems.json and
#                             exits non-zero if any theorem depends on `sorryAx` or on an axiom other
#                             than propext / Classical.choice / Quot.sound, or if a listed theorem
#                             does not exist in the compiled library.
#   ./audit.sh --leanchecker  additionally re-checks every compiled module of the library with
#                             `leanchecker` (Lean's independent kernel re-checker of .olean files).
#   ./audit.sh --quiet        only the summary.
set -u
cd "$(dirname "$0")"
WITH_CHECKER=0; QUIET=0
for a in "$@"; do
  case "$a" in
    --leanchecker) WITH_CHECKER=1 ;;
    --quiet) QUIET=1 ;;
    *) echo "usage: audit.sh [--leanchecker] [--quiet]" >&2; exit 2 ;;
  esac
done

./build.sh >/dev/null || { echo "audit.sh: FAIL: build.sh failed (run ./build.sh for details)" >&2; exit 1; }

AUD=.lake/audit
mkdir -p "$AUD"
python3 - "$AUD/Audit.lean" <<'PY' || exit 1
import json, sys
names = [e["name"] for e in json.load(open("theorems.json", encoding="utf-8"))]
with open(sys.argv[1], "w", encoding="utf-8") as f:
    f.write("import TorchJDSpec\n\n")
    for n in names:
        f.write(f"#print axioms {n}\n")
PY

lake env lean "$AUD/Audit.lean" > "$AUD/audit.out" 2>&1
lean_status=$?
[ "$QUIET" -eq 1 ] || cat "$AUD/audit.out"

QUIET="$QUIET" python3 - "$AUD/audit.out" "$lean_status" <<'PY'
import json, os, re, sys
out = open(sys.argv[1], encoding="utf-8").read()
lean_status = int(sys.argv[2])
allowed = {"propext", "Classical.choice", "Quot.sound"}
names = [e["name"] for e in json.load(open("theorems.json", encoding="utf-8"))]
# `#print axioms` output: "'N' depends on axioms: [a, b,\n c]"  or  "'N' does not depend on any axioms"
res = {}
for m in re.finditer(r"'([^']+(?:'[^' ]*)?)' depends on axioms: \[([^\]]*)\]", out):
    res[m.group(1)] = {a.strip() for a in m.group(2).replace("\n", " ").split(",") if a.strip()}
for m in re.finditer(r"'([^']+(?:'[^' ]*)?)' does not depend on any axioms", out):
    res[m.group(1)] = set()
bad = []
for n in names:
    if n not in res:
        bad.append(f"{n}: no `#print axioms` output (theorem missing from the compiled library?)")
        continue
    extra = res[n] - allowed
    if extra:
        bad.append(f"{n}: uses forbidden axiom(s) {sorted(extra)}")
if lean_status != 0:
    bad.append(f"lean exited with status {lean_status} on Audit.lean")
if re.search(r"\berror\b", out):
    bad.append("lean reported an error on Audit.lean")
if "sorryAx" in out:
    bad.append("sorryAx occurs in the audit output")
used = set().union(*res.values()) if res else set()
print(f"audit.sh: {len(names)} theorems audited; axioms used overall: {sorted(used)}")
if bad:
    print("audit.sh: FAIL", file=sys.stderr)
    for b in bad:
        print("  " + b, file=sys.stderr)
    sys.exit(1)
print("audit.sh: OK (only propext / Classical.choice / Quot.sound)")
PY
status=$?
[ "$status" -eq 0 ] || exit "$status"

if [ "$WITH_CHECKER" -eq 1 ]; then
  command -v leanchecker >/dev/null 2>&1 || { echo "audit.sh: FAIL: leanchecker not on PATH" >&2; exit 1; }
  # Re-check every module of the library (their imports — Mathlib — are loaded as trusted
  # .olean files; replaying all of Mathlib with `--fresh` would take hours).
  mods=$(ls TorchJDSpec/*.lean | sed -e 's#/#.#' -e 's#\.lean$##')
  mods="$mods TorchJDSpec"
  fails=0
  # run in parallel: each process mmaps the same Mathlib .olean files
  printf '%s\n' $mods | xargs -P 4 -I{} sh -c \
    'if lake env leanchecker {} > .lake/audit/leanchecker.{}.out 2>&1; then echo "leanchecker: {} OK"; else echo "leanchecker: {} FAILED"; cat .lake/audit/leanchecker.{}.out; exit 1; fi' \
    || fails=1
  if [ "$fails" -ne 0 ]; then echo "audit.sh: FAIL: leanchecker rejected a module" >&2; exit 1; fi
  echo "audit.sh: leanchecker OK on: $(echo $mods | tr '\n' ' ')"
fi
exit 0
