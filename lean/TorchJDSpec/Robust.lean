import TorchJDSpec.Basic

/-!
  Byzantine-robust aggregators (C16): coordinate-wise trimmed mean and Krum's score.
-/

namespace TorchJDSpec
open Finset

/-! ### (G) Trimmed mean -/

/-- The index window `b ≤ j < m - b` kept by `torch.narrow(sorted, start=b, length=m-2b)`. -/
def trimWindow (m b : ℕ) : Finset (Fin m) :=
  Finset.univ.filter fun j : Fin m => b ≤ (j : ℕ) ∧ (j : ℕ) + b < m

/-- Trimmed mean of an (already sorted) column `a`: mean of the entries of rank in `[b, m-b)`. -/
noncomputable def trimmedMean {m : ℕ} (a : Fin m → ℝ) (b : ℕ) : ℝ :=
  (∑ j ∈ trimWindow m b, a j) / ((m - 2 * b : ℕ) : ℝ)

theorem trimWindow_card (m b : ℕ) : (trimWindow m b).card = m - 2 * b := by
  have h : (trimWindow m b).map Fin.valEmbedding = Finset.Ico b (m - b) := by
    ext x
    simp only [trimWindow, Finset.mem_map, Finset.mem_filter, Finset.mem_univ, true_and,
      Fin.valEmbedding_apply, Finset.mem_Ico]
    constructor
    · rintro ⟨j, ⟨h1, h2⟩, rfl⟩
      omega
    · rintro ⟨h1, h2⟩
      exact ⟨⟨x, by omega⟩, ⟨h1, by simp only; omega⟩, rfl⟩
  have := congrArg Finset.card h
  rw [Finset.card_map, Nat.card_Ico] at this
  omega

/-- The mean of a non-empty family of reals all lying in `[lo, hi]` lies in `[lo, hi]`. -/
theorem mean_mem_Icc {α : Type*} (s : Finset α) (hs : s.Nonempty) (f : α → ℝ) (lo hi : ℝ)
    (h : ∀ j ∈ s, lo ≤ f j ∧ f j ≤ hi) :
    lo ≤ (∑ j ∈ s, f j) / (s.card : ℝ) ∧ (∑ j ∈ s, f j) / (s.card : ℝ) ≤ hi := by
  have hc : (0 : ℝ) < s.card := by exact_mod_cast hs.card_pos
  constructor
  · rw [le_div_iff₀ hc]
    have := Finset.card_nsmul_le_sum s f lo (fun j hj => (h j hj).1)
    simpa [nsmul_eq_mul, mul_comm] using this
  · rw [div_le_iff₀ hc]
    have := Finset.sum_le_card_nsmul s f hi (fun j hj => (h j hj).2)
    simpa [nsmul_eq_mul, mul_comm] using this

/-- (G, C16) The trimmed mean of a sorted column lies between its `b`-th and `(m-b-1)`-th order
statistics. -/
theorem trimmed_mean_bounds {m : ℕ} (a : Fin m → ℝ) (ha : Monotone a) (b : ℕ)
    (hb : 2 * b + 1 ≤ m) :
    a ⟨b, by omega⟩ ≤ trimmedMean a b ∧ trimmedMean a b ≤ a ⟨m - b - 1, by omega⟩ := by
  have hne : (trimWindow m b).Nonempty :=
    ⟨⟨b, by omega⟩, by simp only [trimWindow, mem_filter, mem_univ, true_and]; omega⟩
  have := mean_mem_Icc (trimWindow m b) hne a (a ⟨b, by omega⟩) (a ⟨m - b - 1, by omega⟩) ?_
  · rwa [trimWindow_card] at this
  · intro j hj
    simp only [trimWindow, mem_filter, mem_univ, true_and] at hj
    exact ⟨ha (by rw [Fin.le_def]; simp only; omega), ha (by rw [Fin.le_def]; simp only; omega)⟩

/-- (G, C16) Robustness of order statistics: if at least `m - b` entries of a sorted column lie in
`[lo, hi]`, every order statistic of rank `k ∈ [b, m-b)` lies in `[lo, hi]`. -/
theorem order_stat_mem_Icc {m : ℕ} (a : Fin m → ℝ) (ha : Monotone a) (b : ℕ) (lo hi : ℝ)
    (hcount : m - b ≤ (Finset.univ.filter fun j : Fin m => lo ≤ a j ∧ a j ≤ hi).card)
    (k : Fin m) (hk1 : b ≤ (k : ℕ)) (hk2 : (k : ℕ) + b < m) : lo ≤ a k ∧ a k ≤ hi := by
  set good := Finset.univ.filter fun j : Fin m => lo ≤ a j ∧ a j ≤ hi with hgood
  set bad := Finset.univ.filter fun j : Fin m => ¬(lo ≤ a j ∧ a j ≤ hi) with hbad
  have hsum : good.card + bad.card = m := by
    have := Finset.card_filter_add_card_filter_not (s := (Finset.univ : Finset (Fin m)))
      (fun j : Fin m => lo ≤ a j ∧ a j ≤ hi)
    rw [Finset.card_univ, Fintype.card_fin] at this
    exact this
  have hbadle : bad.card ≤ b := by omega
  constructor
  · by_contra hlt
    replace hlt := not_le.mp hlt
    have hsub : Finset.Iic k ⊆ bad := by
      intro j hj
      rw [Finset.mem_Iic] at hj
      simp only [hbad, mem_filter, mem_univ, true_and]
      intro hc
      have := ha hj
      linarith [hc.1]
    have hcard := Finset.card_le_card hsub
    rw [Fin.card_Iic] at hcard
    omega
  · by_contra hlt
    replace hlt := not_le.mp hlt
    have hsub : Finset.Ici k ⊆ bad := by
      intro j hj
      rw [Finset.mem_Ici] at hj
      simp only [hbad, mem_filter, mem_univ, true_and]
      intro hc
      have := ha hj
      linarith [hc.2]
    have hcard := Finset.card_le_card hsub
    rw [Fin.card_Ici] at hcard
    omega

/-- (G, C16) Robustness of the trimmed mean: if at least `m - b` entries of the sorted column lie
in `[lo, hi]` (at most `b` Byzantine values), the trimmed mean lies in `[lo, hi]`. -/
theorem trimmed_mean_robust {m : ℕ} (a : Fin m → ℝ) (ha : Monotone a) (b : ℕ)
    (hb : 2 * b + 1 ≤ m) (lo hi : ℝ)
    (hcount : m - b ≤ (Finset.univ.filter fun j : Fin m => lo ≤ a j ∧ a j ≤ hi).card) :
    lo ≤ trimmedMean a b ∧ trimmedMean a b ≤ hi := by
  have hne : (trimWindow m b).Nonempty :=
    ⟨⟨b, by omega⟩, by simp only [trimWindow, mem_filter, mem_univ, true_and]; omega⟩
  have := mean_mem_Icc (trimWindow m b) hne a lo hi ?_
  · rwa [trimWindow_card] at this
  · intro j hj
    simp only [trimWindow, mem_filter, mem_univ, true_and] at hj
    exact order_stat_mem_Icc a ha b lo hi hcount j hj.1 hj.2

/-- (G, C16) Same statement for an unsorted column `x` and any sorting permutation `σ`
(`torch.sort` returns `x ∘ σ` monotone): counting is done on the original column. -/
theorem trimmed_mean_robust_of_perm {m : ℕ} (x : Fin m → ℝ) (σ : Equiv.Perm (Fin m))
    (hsorted : Monotone (x ∘ σ)) (b : ℕ) (hb : 2 * b + 1 ≤ m) (lo hi : ℝ)
    (hcount : m - b ≤ (Finset.univ.filter fun i : Fin m => lo ≤ x i ∧ x i ≤ hi).card) :
    lo ≤ trimmedMean (x ∘ σ) b ∧ trimmedMean (x ∘ σ) b ≤ hi := by
  refine trimmed_mean_robust (x ∘ σ) hsorted b hb lo hi ?_
  have : (Finset.univ.filter fun j : Fin m => lo ≤ (x ∘ σ) j ∧ (x ∘ σ) j ≤ hi).card
      = (Finset.univ.filter fun i : Fin m => lo ≤ x i ∧ x i ≤ hi).card :=
    Finset.card_bijective σ σ.bijective (by simp)
  rw [this]
  exact hcount

/-! ### (O) Krum: the self-distance is among the smallest -/

/-- `S` is a valid output (as an index set) of `topk(d, k, largest=False)` restricted to the
candidate set `s`: `k` indices of `s` such that no index left out has a strictly smaller value. -/
def IsBottomK {α : Type*} [DecidableEq α] (s S : Finset α) (k : ℕ) (d : α → ℝ) : Prop :=
  S ⊆ s ∧ S.card = k ∧ ∀ a ∈ S, ∀ b ∈ s \ S, d a ≤ d b

/-- The sum over a bottom-`k` set is minimal among all `k`-subsets: "sum of the `k` smallest
entries" is well defined even with ties. -/
theorem bottomK_sum_le {α : Type*} [DecidableEq α] (s S T : Finset α) (k : ℕ) (d : α → ℝ)
    (hS : IsBottomK s S k d) (hT : T ⊆ s) (hTk : T.card = k) :
    ∑ a ∈ S, d a ≤ ∑ a ∈ T, d a := by
  obtain ⟨hSs, hSk, hSd⟩ := hS
  have hcard : (S \ T).card = (T \ S).card := Finset.card_sdiff_comm (by rw [hSk, hTk])
  -- split both sums along the intersection
  have e1 : ∑ a ∈ S \ T, d a + ∑ a ∈ S ∩ T, d a = ∑ a ∈ S, d a := by
    rw [← Finset.sdiff_inter_self_left S T]
    exact Finset.sum_sdiff Finset.inter_subset_left
  have e2 : ∑ a ∈ T \ S, d a + ∑ a ∈ S ∩ T, d a = ∑ a ∈ T, d a := by
    rw [Finset.inter_comm S T, ← Finset.sdiff_inter_self_left T S]
    exact Finset.sum_sdiff Finset.inter_subset_left
  have key : ∑ a ∈ S \ T, d a ≤ ∑ a ∈ T \ S, d a := by
    rcases (S \ T).eq_empty_or_nonempty with hA | hA
    · have hB : T \ S = ∅ := Finset.card_eq_zero.mp (by rw [← hcard, hA, Finset.card_empty])
      simp [hA, hB]
    · calc ∑ a ∈ S \ T, d a ≤ (S \ T).card • (S \ T).sup' hA d :=
            Finset.sum_le_card_nsmul _ _ _ (fun a ha => Finset.le_sup' d ha)
        _ = (T \ S).card • (S \ T).sup' hA d := by rw [hcard]
        _ ≤ ∑ a ∈ T \ S, d a :=
            Finset.card_nsmul_le_sum _ _ _ (fun b hb => Finset.sup'_le _ _ (fun a ha =>
              hSd a (Finset.mem_sdiff.mp ha).1 b
                (Finset.mem_sdiff.mpr ⟨hT (Finset.mem_sdiff.mp hb).1, (Finset.mem_sdiff.mp hb).2⟩)))
  linarith

/-- (O, C16) Krum's score: let `d` be row `i` of the distance matrix (`d i = 0`, `d ≥ 0`).
`topk(d, q+1, largest=False)` gives a bottom-`(q+1)` set `S` of all indices; dropping its first
(smallest, value-`0`) element `j₀` and summing gives exactly the sum of the `q` smallest distances
to the *other* rows (any bottom-`q` set `S'` of `univ \ {i}`). -/
theorem self_distance_first {α : Type*} [DecidableEq α] [Fintype α] (d : α → ℝ) (i : α)
    (hdi : d i = 0) (hd : ∀ j, 0 ≤ d j) (q : ℕ) (S S' : Finset α)
    (hS : IsBottomK Finset.univ S (q + 1) d) (hS' : IsBottomK (Finset.univ.erase i) S' q d)
    (j₀ : α) (hj₀ : j₀ ∈ S) (hmin : ∀ a ∈ S, d j₀ ≤ d a) :
    ∑ a ∈ S.erase j₀, d a = ∑ a ∈ S', d a := by
  have hj0 : d j₀ = 0 := by
    refine le_antisymm ?_ (hd j₀)
    by_cases hi : i ∈ S
    · exact hdi ▸ hmin i hi
    · exact hdi ▸ hS.2.2 j₀ hj₀ i (Finset.mem_sdiff.mpr ⟨Finset.mem_univ i, hi⟩)
  have hSsum : ∑ a ∈ S.erase j₀, d a = ∑ a ∈ S, d a := by
    rw [← Finset.add_sum_erase S d hj₀, hj0, zero_add]
  rw [hSsum]
  have hiS' : i ∉ S' := fun h => (Finset.mem_erase.mp (hS'.1 h)).1 rfl
  apply le_antisymm
  · -- `S` is optimal among `(q+1)`-subsets; `insert i S'` is one of them
    have h := bottomK_sum_le Finset.univ S (insert i S') (q + 1) d hS (Finset.subset_univ _)
      (by rw [Finset.card_insert_of_notMem hiS', hS'.2.1])
    rwa [Finset.sum_insert hiS', hdi, zero_add] at h
  · -- `S'` is optimal among `q`-subsets avoiding `i`
    by_cases hi : i ∈ S
    · have h := bottomK_sum_le (Finset.univ.erase i) S' (S.erase i) q d hS'
        (Finset.erase_subset_erase i (Finset.subset_univ S))
        (by rw [Finset.card_erase_of_mem hi, hS.2.1]; rfl)
      rwa [← Finset.add_sum_erase S d hi, hdi, zero_add]
    · have h := bottomK_sum_le (Finset.univ.erase i) S' (S.erase j₀) q d hS'
        (fun a ha => Finset.mem_erase.mpr
          ⟨fun hai => hi (hai ▸ (Finset.mem_erase.mp ha).2), Finset.mem_univ a⟩)
        (by rw [Finset.card_erase_of_mem hj₀, hS.2.1]; rfl)
      rwa [hSsum] at h

end TorchJDSpec
