import TorchJDSpec.Linear
import TorchJDSpec.Gram
import TorchJDSpec.QP

/-!
  The five statements of DESIGN.md's Appendix, verbatim (`Fin m` / `Fin n` index types), obtained
  as instances of the library's index-polymorphic theorems.  Nothing new is proved here; the file
  guards against drift between the design document and the library.
-/

namespace TorchJDSpec.AppendixCheck
open Matrix TorchJDSpec

example {m n : ℕ} (L : (Fin m → ℝ) →ₗ[ℝ] (Fin n → ℝ)) (w : Fin m → ℝ) :
    w ᵥ* (Matrix.of fun r c => L (Pi.single r 1) c) = L w :=
  vecMul_rows_of_linear L w

example {m : ℕ} (G : Matrix (Fin m) (Fin m) ℝ) (u w : Fin m → ℝ) :
    IsQPMin G u w ↔
      (∀ i, u i ≤ w i) ∧ ∀ v : Fin m → ℝ, (∀ i, u i ≤ v i) → w ⬝ᵥ (G *ᵥ w) ≤ v ⬝ᵥ (G *ᵥ v) :=
  Iff.rfl

example {m : ℕ} (G : Matrix (Fin m) (Fin m) ℝ) (hG : G.IsSymm)
    (u w : Fin m → ℝ) (h : IsQPMin G u w) (i : Fin m) : 0 ≤ (G *ᵥ w) i :=
  qp_min_Gw_nonneg G hG u w h i

example {m n : ℕ} (f : Matrix (Fin m) (Fin m) ℝ → (Fin m → ℝ)) (J : Matrix (Fin m) (Fin n) ℝ) :
    gramAgg f J = f (J * Jᵀ) ᵥ* J :=
  rfl

example {m n : ℕ} (f : Matrix (Fin m) (Fin m) ℝ → (Fin m → ℝ)) (J : Matrix (Fin m) (Fin n) ℝ)
    (Q : Matrix (Fin n) (Fin n) ℝ) (hQ : Q * Qᵀ = 1) : gramAgg f (J * Q) = gramAgg f J ᵥ* Q :=
  gramAgg_orthogonal f J Q hQ

example {m n : ℕ} (f : Matrix (Fin m) (Fin m) ℝ → (Fin m → ℝ))
    (hf : ∀ (σ : Equiv.Perm (Fin m)) G, f (G.submatrix σ σ) = f G ∘ σ)
    (σ : Equiv.Perm (Fin m)) (J : Matrix (Fin m) (Fin n) ℝ) :
    gramAgg f (J.submatrix σ id) = gramAgg f J :=
  gramAgg_perm_invariant f hf σ J

example {m n : ℕ} (f : Matrix (Fin m) (Fin m) ℝ → (Fin m → ℝ)) (t : ℝ)
    (hf : ∀ G, f ((t * t) • G) = f G) (J : Matrix (Fin m) (Fin n) ℝ) :
    gramAgg f (t • J) = t • gramAgg f J :=
  gramAgg_homogeneous f t hf J

end TorchJDSpec.AppendixCheck
