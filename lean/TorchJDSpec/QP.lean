import TorchJDSpec.Basic

/-!
  The quadratic program behind UPGrad / DualProj (`_project_weight_vector`):
  minimise `vᵀ G v` subject to `u ≤ v`  (properties C03, C04, C10).
-/

namespace TorchJDSpec
open Matrix

variable {ι κ : Type*} [Fintype ι]

/-! ### Quadratic-form algebra -/

/-- For a symmetric `G`, `x ⬝ᵥ G y = y ⬝ᵥ G x`. -/
theorem dotProduct_mulVec_symm (G : Matrix ι ι ℝ) (hG : G.IsSymm) (x y : ι → ℝ) :
    x ⬝ᵥ (G *ᵥ y) = y ⬝ᵥ (G *ᵥ x) := by
  rw [Matrix.dotProduct_mulVec, ← Matrix.mulVec_transpose, hG.eq, dotProduct_comm]

/-- Expansion of the quadratic form along a direction `d`. -/
theorem quad_add (G : Matrix ι ι ℝ) (hG : G.IsSymm) (w d : ι → ℝ) :
    (w + d) ⬝ᵥ (G *ᵥ (w + d)) = w ⬝ᵥ (G *ᵥ w) + 2 * (d ⬝ᵥ (G *ᵥ w)) + d ⬝ᵥ (G *ᵥ d) := by
  rw [Matrix.mulVec_add, add_dotProduct, dotProduct_add, dotProduct_add,
    dotProduct_mulVec_symm G hG w d]
  ring

/-! ### (B) Necessary conditions (KKT) -/

/-- Value of the quadratic form after a step of size `t` along the `i`-th basis vector. -/
theorem quad_step [DecidableEq ι] (G : Matrix ι ι ℝ) (hG : G.IsSymm) (w : ι → ℝ) (i : ι) (t : ℝ) :
    (w + t • (Pi.single i 1 : ι → ℝ)) ⬝ᵥ (G *ᵥ (w + t • (Pi.single i 1 : ι → ℝ)))
      = w ⬝ᵥ (G *ᵥ w) + 2 * t * (G *ᵥ w) i + t * t * G i i := by
  rw [quad_add G hG]
  have e1 : (t • (Pi.single i 1 : ι → ℝ)) ⬝ᵥ (G *ᵥ w) = t * (G *ᵥ w) i := by
    rw [smul_dotProduct, single_one_dotProduct, smul_eq_mul]
  have e2 : (t • (Pi.single i 1 : ι → ℝ)) ⬝ᵥ (G *ᵥ (t • (Pi.single i 1 : ι → ℝ)))
      = t * t * G i i := by
    rw [Matrix.mulVec_smul, smul_dotProduct, dotProduct_smul, single_one_dotProduct,
      Matrix.mulVec_single_one]
    simp [mul_assoc]
  rw [e1, e2]
  ring

/-- (B, C04) At a minimiser of the QP, `G w ≥ 0` componentwise (dual feasibility). With
`G = J Jᵀ` this says the aggregation `Jᵀ w` does not conflict with any row of `J`. -/
theorem qp_min_Gw_nonneg [DecidableEq ι] (G : Matrix ι ι ℝ) (hG : G.IsSymm)
    (u w : ι → ℝ) (h : IsQPMin G u w) (i : ι) : 0 ≤ (G *ᵥ w) i := by
  by_contra hneg
  replace hneg := not_le.mp hneg
  obtain ⟨hfeas, hmin⟩ := h
  set g := (G *ᵥ w) i with hg
  -- perturb along `t • eᵢ`, `t > 0`
  have key : ∀ t : ℝ, 0 < t → 0 ≤ 2 * t * g + t * t * G i i := by
    intro t ht
    have hv : ∀ j, u j ≤ (w + t • (Pi.single i 1 : ι → ℝ)) j := by
      intro j
      have h0 : 0 ≤ (t • (Pi.single i 1 : ι → ℝ)) j := by
        by_cases hji : j = i
        · subst hji; simp [ht.le]
        · simp [hji]
      have := hfeas j
      simp only [Pi.add_apply]
      linarith
    have h1 := hmin _ hv
    rw [quad_step G hG] at h1
    linarith
  by_cases hd : G i i ≤ 0
  · have := key 1 one_pos
    nlinarith
  · replace hd := not_le.mp hd
    have ht : 0 < -g / G i i := div_pos (by linarith) hd
    have := key (-g / G i i) ht
    have e : 2 * (-g / G i i) * g + (-g / G i i) * (-g / G i i) * G i i = -(g * g / G i i) := by
      field_simp
      ring
    rw [e] at this
    have : 0 < g * g / G i i := div_pos (mul_pos_of_neg_of_neg hneg hneg) hd
    linarith

/-- (B', C03) Complementary slackness: at a minimiser, wherever the constraint `u i ≤ w i` is
not active, the multiplier `(G w) i` vanishes. -/
theorem qp_min_compl_slack [DecidableEq ι] (G : Matrix ι ι ℝ) (hG : G.IsSymm)
    (u w : ι → ℝ) (h : IsQPMin G u w) (i : ι) : (G *ᵥ w) i * (w i - u i) = 0 := by
  have hnn := qp_min_Gw_nonneg G hG u w h i
  obtain ⟨hfeas, hmin⟩ := h
  rcases (hfeas i).eq_or_lt with heq | hlt
  · rw [heq]; simp
  · -- `w i > u i`: can also move along `-t • eᵢ` for `0 < t ≤ w i - u i`
    set g := (G *ᵥ w) i with hg
    set δ := w i - u i with hδ
    have hδpos : 0 < δ := by linarith
    have key : ∀ t : ℝ, 0 < t → t ≤ δ → 0 ≤ -(2 * t * g) + t * t * G i i := by
      intro t ht htδ
      have hv : ∀ j, u j ≤ (w + (-t) • (Pi.single i 1 : ι → ℝ)) j := by
        intro j
        by_cases hji : j = i
        · subst hji
          simp only [Pi.add_apply, Pi.smul_apply, Pi.single_eq_same, smul_eq_mul, mul_one]
          linarith
        · have := hfeas j
          simp [hji, this]
      have h1 := hmin _ hv
      rw [quad_step G hG] at h1
      linarith
    have hg0 : g = 0 := by
      by_contra hne
      have hgpos : 0 < g := lt_of_le_of_ne hnn (Ne.symm hne)
      by_cases hd : G i i ≤ 0
      · have := key δ hδpos le_rfl
        nlinarith
      · replace hd := not_le.mp hd
        -- choose `t = min δ (g / G i i)`
        set t := min δ (g / G i i) with htdef
        have htpos : 0 < t := lt_min hδpos (div_pos hgpos hd)
        have ht1 : t ≤ δ := min_le_left _ _
        have ht2 : t ≤ g / G i i := min_le_right _ _
        have ht3 : t * G i i ≤ g := (le_div_iff₀ hd).mp ht2
        have := key t htpos ht1
        nlinarith
    rw [hg0]; simp

/-! ### (E) Sufficient conditions and consequences -/

/-- (E, C03) KKT conditions are sufficient when `G` is symmetric positive semidefinite. -/
theorem qpmin_of_kkt (G : Matrix ι ι ℝ) (hG : G.IsSymm)
    (hpsd : ∀ d : ι → ℝ, 0 ≤ d ⬝ᵥ (G *ᵥ d)) (u w : ι → ℝ)
    (hfeas : ∀ i, u i ≤ w i) (hdual : ∀ i, 0 ≤ (G *ᵥ w) i)
    (hcs : ∀ i, (G *ᵥ w) i * (w i - u i) = 0) : IsQPMin G u w := by
  refine ⟨hfeas, fun v hv => ?_⟩
  have hvw : v = w + (v - w) := by abel
  rw [hvw, quad_add G hG]
  have h1 : 0 ≤ (v - w) ⬝ᵥ (G *ᵥ w) := by
    unfold dotProduct
    refine Finset.sum_nonneg fun i _ => ?_
    have e : (v - w) i * (G *ᵥ w) i = (v i - u i) * (G *ᵥ w) i - (G *ᵥ w) i * (w i - u i) := by
      simp only [Pi.sub_apply]; ring
    rw [e, hcs i, sub_zero]
    exact mul_nonneg (by linarith [hv i]) (hdual i)
  have h2 := hpsd (v - w)
  linarith

/-- (E, C03) For symmetric PSD `G`: `w` solves the QP iff it satisfies the KKT system
(primal feasibility, dual feasibility, complementary slackness). -/
theorem qpmin_iff_kkt [DecidableEq ι] (G : Matrix ι ι ℝ) (hG : G.IsSymm)
    (hpsd : ∀ d : ι → ℝ, 0 ≤ d ⬝ᵥ (G *ᵥ d)) (u w : ι → ℝ) :
    IsQPMin G u w ↔
      (∀ i, u i ≤ w i) ∧ (∀ i, 0 ≤ (G *ᵥ w) i) ∧ ∀ i, (G *ᵥ w) i * (w i - u i) = 0 :=
  ⟨fun h => ⟨h.1, qp_min_Gw_nonneg G hG u w h, qp_min_compl_slack G hG u w h⟩,
   fun h => qpmin_of_kkt G hG hpsd u w h.1 h.2.1 h.2.2⟩

/-- Variational inequality at a minimiser: every feasible direction is an ascent direction. -/
theorem qpmin_variational [DecidableEq ι] (G : Matrix ι ι ℝ) (hG : G.IsSymm)
    (u w v : ι → ℝ) (h : IsQPMin G u w) (hv : ∀ i, u i ≤ v i) :
    0 ≤ (v - w) ⬝ᵥ (G *ᵥ w) := by
  unfold dotProduct
  refine Finset.sum_nonneg fun i _ => ?_
  have hcs := qp_min_compl_slack G hG u w h i
  have e : (v - w) i * (G *ᵥ w) i = (v i - u i) * (G *ᵥ w) i - (G *ᵥ w) i * (w i - u i) := by
    simp only [Pi.sub_apply]; ring
  rw [e, hcs, sub_zero]
  exact mul_nonneg (by linarith [hv i]) (qp_min_Gw_nonneg G hG u w h i)

/-- (E, C03) Uniqueness: if `G` is symmetric positive definite, the QP has at most one
minimiser. -/
theorem qpmin_unique [DecidableEq ι] (G : Matrix ι ι ℝ) (hG : G.IsSymm)
    (hpd : ∀ d : ι → ℝ, d ≠ 0 → 0 < d ⬝ᵥ (G *ᵥ d)) (u w₁ w₂ : ι → ℝ)
    (h₁ : IsQPMin G u w₁) (h₂ : IsQPMin G u w₂) : w₁ = w₂ := by
  by_contra hne
  have hd : w₁ - w₂ ≠ 0 := sub_ne_zero.mpr hne
  have hpos := hpd _ hd
  have a := qpmin_variational G hG u w₁ w₂ h₁ h₂.1
  have b := qpmin_variational G hG u w₂ w₁ h₂ h₁.1
  have e : (w₁ - w₂) ⬝ᵥ (G *ᵥ (w₁ - w₂))
      = -((w₂ - w₁) ⬝ᵥ (G *ᵥ w₁)) - (w₁ - w₂) ⬝ᵥ (G *ᵥ w₂) := by
    rw [Matrix.mulVec_sub, dotProduct_sub, ← neg_sub w₁ w₂, neg_dotProduct]
    ring
  linarith

/-- `Matrix.PosDef` version of `qpmin_unique`. -/
theorem qpmin_unique_posDef [DecidableEq ι] (G : Matrix ι ι ℝ) (hG : G.PosDef) (u w₁ w₂ : ι → ℝ)
    (h₁ : IsQPMin G u w₁) (h₂ : IsQPMin G u w₂) : w₁ = w₂ := by
  refine qpmin_unique G ?_ (fun d hd => ?_) u w₁ w₂ h₁ h₂
  · have := hG.isHermitian
    rwa [Matrix.IsHermitian, Matrix.conjTranspose_eq_transpose_of_trivial] at this
  · simpa using hG.dotProduct_mulVec_pos hd

/-- (E, C03/C04) No-conflict case: if `G u ≥ 0` componentwise and `G` is symmetric PSD,
then `u` itself solves the QP (the projection does nothing). -/
theorem qpmin_nonconflict (G : Matrix ι ι ℝ) (hG : G.IsSymm)
    (hpsd : ∀ d : ι → ℝ, 0 ≤ d ⬝ᵥ (G *ᵥ d)) (u : ι → ℝ) (hu : ∀ i, 0 ≤ (G *ᵥ u) i) :
    IsQPMin G u u :=
  qpmin_of_kkt G hG hpsd u u (fun _ => le_rfl) hu (fun i => by simp)

/-- The hypothesis of `qpmin_nonconflict` holds when `G` has non-negative entries and `u ≥ 0`. -/
theorem mulVec_nonneg_of_nonneg (G : Matrix ι ι ℝ) (hG : ∀ i j, 0 ≤ G i j) (u : ι → ℝ)
    (hu : ∀ i, 0 ≤ u i) (i : ι) : 0 ≤ (G *ᵥ u) i :=
  Finset.sum_nonneg fun j _ => mul_nonneg (hG i j) (hu j)

/-- (E) No-conflict + positive definiteness: every minimiser equals `u`. -/
theorem qpmin_nonconflict_eq [DecidableEq ι] (G : Matrix ι ι ℝ) (hG : G.IsSymm)
    (hpd : ∀ d : ι → ℝ, d ≠ 0 → 0 < d ⬝ᵥ (G *ᵥ d)) (u w : ι → ℝ)
    (hu : ∀ i, 0 ≤ (G *ᵥ u) i) (h : IsQPMin G u w) : w = u := by
  have hpsd : ∀ d : ι → ℝ, 0 ≤ d ⬝ᵥ (G *ᵥ d) := fun d => by
    by_cases hd : d = 0
    · simp [hd]
    · exact (hpd d hd).le
  exact qpmin_unique G hG hpd u w u h (qpmin_nonconflict G hG hpsd u hu)

/-- (E, C03) Small-σ branch: when the normalised Gramian is replaced by `0`, `G = reg • 1`,
and the minimiser is the componentwise positive part of `u`. -/
theorem small_sigma [DecidableEq ι] (reg : ℝ) (hreg : 0 < reg) (u : ι → ℝ) :
    IsQPMin (reg • (1 : Matrix ι ι ℝ)) u (fun i => max (u i) 0) := by
  have hGw : ∀ w : ι → ℝ, (reg • (1 : Matrix ι ι ℝ)) *ᵥ w = reg • w := by
    intro w; rw [Matrix.smul_mulVec, Matrix.one_mulVec]
  refine qpmin_of_kkt _ ?_ ?_ u _ (fun i => le_max_left _ _) ?_ ?_
  · rw [Matrix.IsSymm, Matrix.transpose_smul, Matrix.transpose_one]
  · intro d
    rw [hGw, dotProduct_smul, smul_eq_mul]
    exact mul_nonneg hreg.le (Finset.sum_nonneg fun i _ => mul_self_nonneg _)
  · intro i
    rw [hGw]
    exact mul_nonneg hreg.le (le_max_right _ _)
  · intro i
    rw [hGw]
    simp only [Pi.smul_apply, smul_eq_mul]
    rcases le_total (u i) 0 with h | h
    · rw [max_eq_right h]; ring
    · rw [max_eq_left h]; ring

/-- (E, C03) Small-σ branch, uniqueness: any minimiser for `G = reg • 1` is `max u 0`. -/
theorem small_sigma_unique [DecidableEq ι] (reg : ℝ) (hreg : 0 < reg) (u w : ι → ℝ)
    (h : IsQPMin (reg • (1 : Matrix ι ι ℝ)) u w) : w = fun i => max (u i) 0 := by
  have hGw : ∀ w : ι → ℝ, (reg • (1 : Matrix ι ι ℝ)) *ᵥ w = reg • w := by
    intro w; rw [Matrix.smul_mulVec, Matrix.one_mulVec]
  refine qpmin_unique _ ?_ ?_ u w _ h (small_sigma reg hreg u)
  · rw [Matrix.IsSymm, Matrix.transpose_smul, Matrix.transpose_one]
  · intro d hd
    rw [hGw, dotProduct_smul, smul_eq_mul]
    refine mul_pos hreg ?_
    obtain ⟨i, hi⟩ := Function.ne_iff.mp hd
    exact Finset.sum_pos' (fun i _ => mul_self_nonneg _) ⟨i, Finset.mem_univ _, mul_self_pos.mpr hi⟩

/-- (E, C03) Small-σ branch with non-negative `u` (the UPGrad/DualProj case): `w = u`. -/
theorem small_sigma_nonneg [DecidableEq ι] (reg : ℝ) (hreg : 0 < reg) (u w : ι → ℝ)
    (hu : ∀ i, 0 ≤ u i) (h : IsQPMin (reg • (1 : Matrix ι ι ℝ)) u w) : w = u := by
  rw [small_sigma_unique reg hreg u w h]
  ext i
  exact max_eq_left (hu i)

/-- (E, C03) The generic QP handed to `solve_qp(G, 0, -I, -u)` is exactly `IsQPMin G u`:
same feasible set, same minimisers. -/
theorem qpgen_to_qpmin [DecidableEq ι] (G : Matrix ι ι ℝ) (u x : ι → ℝ) :
    IsGenQPMin G 0 (-(1 : Matrix ι ι ℝ)) (-u) x ↔ IsQPMin G u x := by
  have hfe : ∀ y : ι → ℝ, (∀ r, ((-(1 : Matrix ι ι ℝ)) *ᵥ y) r ≤ (-u) r) ↔ ∀ i, u i ≤ y i := by
    intro y
    simp [Matrix.neg_mulVec]
  unfold IsGenQPMin IsQPMin
  rw [hfe]
  refine and_congr_right fun _ => forall_congr' fun y => ?_
  rw [hfe]
  refine imp_congr_right fun _ => ?_
  simp only [zero_dotProduct, add_zero]
  constructor <;> intro h <;> linarith

/-- Feasible sets coincide (stated separately). -/
theorem qpgen_feasible_iff [DecidableEq ι] (u y : ι → ℝ) :
    (∀ r, ((-(1 : Matrix ι ι ℝ)) *ᵥ y) r ≤ (-u) r) ↔ ∀ i, u i ≤ y i := by
  simp [Matrix.neg_mulVec]

/-! ### (P) Permutation equivariance of the QP (C10) -/

/-- The quadratic form is invariant under simultaneous re-indexing. -/
theorem quad_submatrix (G : Matrix ι ι ℝ) (σ : Equiv.Perm ι) (w : ι → ℝ) :
    (w ∘ σ) ⬝ᵥ (G.submatrix σ σ *ᵥ (w ∘ σ)) = w ⬝ᵥ (G *ᵥ w) := by
  have h : G.submatrix σ σ *ᵥ (w ∘ σ) = (G *ᵥ w) ∘ σ := by
    ext i
    simp only [mulVec, dotProduct, submatrix_apply, Function.comp_apply]
    exact Equiv.sum_comp σ (fun j => G (σ i) j * w j)
  rw [h]
  unfold dotProduct
  exact Equiv.sum_comp σ (fun i => w i * (G *ᵥ w) i)

/-- (P, C10) Permuting the objectives permutes the QP solution. -/
theorem qpmin_perm (G : Matrix ι ι ℝ) (u w : ι → ℝ) (σ : Equiv.Perm ι) :
    IsQPMin (G.submatrix σ σ) (u ∘ σ) (w ∘ σ) ↔ IsQPMin G u w := by
  unfold IsQPMin
  constructor
  · rintro ⟨hf, hm⟩
    refine ⟨fun i => by simpa using hf (σ.symm i), fun v hv => ?_⟩
    have := hm (v ∘ σ) (fun i => hv (σ i))
    rwa [quad_submatrix, quad_submatrix] at this
  · rintro ⟨hf, hm⟩
    refine ⟨fun i => hf (σ i), fun v hv => ?_⟩
    have hv' : ∀ i, u i ≤ (v ∘ σ.symm) i := fun i => by simpa using hv (σ.symm i)
    have := hm (v ∘ σ.symm) hv'
    rw [quad_submatrix]
    have e : v = (v ∘ σ.symm) ∘ σ := by ext i; simp
    rw [e, quad_submatrix]
    exact this

/-- (P, C10) With a positive definite Gramian the solver output is a function of `(G, u)`, and
that function is permutation-equivariant: the solution for the permuted problem is the permuted
solution.  This discharges the hypothesis `hf` of `gramAgg_perm_invariant` for DualProj/UPGrad. -/
theorem qpmin_perm_unique [DecidableEq ι] (G : Matrix ι ι ℝ) (hG : G.IsSymm)
    (hpd : ∀ d : ι → ℝ, d ≠ 0 → 0 < d ⬝ᵥ (G *ᵥ d)) (u w w' : ι → ℝ) (σ : Equiv.Perm ι)
    (h : IsQPMin G u w) (h' : IsQPMin (G.submatrix σ σ) (u ∘ σ) w') : w' = w ∘ σ := by
  refine qpmin_unique (G.submatrix σ σ) (hG.submatrix σ) ?_ (u ∘ σ) w' (w ∘ σ) h'
    ((qpmin_perm G u w σ).mpr h)
  intro d hd
  have e : d = (d ∘ σ.symm) ∘ σ := by ext i; simp
  rw [e, quad_submatrix]
  refine hpd _ fun h0 => hd ?_
  rw [e, h0]
  rfl

end TorchJDSpec
