import TorchJDSpec.Basic

namespace TorchJDSpec
open Matrix

variable {ι κ : Type*} [Fintype ι] [DecidableEq ι]

/-- (A) The matrix whose rows are the images of the basis vectors under a linear map `L`
represents `L` through `vecMul`. -/
theorem vecMul_rows_of_linear (L : (ι → ℝ) →ₗ[ℝ] (κ → ℝ)) (w : ι → ℝ) :
    w ᵥ* (Matrix.of fun r c => L (Pi.single r 1) c) = L w := by
  ext c
  rw [LinearMap.pi_apply_eq_sum_univ L w]
  simp only [vecMul, dotProduct, Finset.sum_apply, Matrix.of_apply, Pi.smul_apply, smul_eq_mul]
  refine Finset.sum_congr rfl fun i _ => ?_
  have h : (Pi.single i 1 : ι → ℝ) = fun j => if i = j then 1 else 0 := by
    ext j
    simp [Pi.single_apply, eq_comm]
  rw [h]

/-- (A') Consequence used by C05: for a *linear* aggregator with fixed weights `w`
(Sum: `w = 1`, Mean: `w = 1/m`, Constant), aggregating the Jacobian rows `L eᵣ` equals
applying the vector-Jacobian product `L` to `w` directly. -/
theorem linear_agg_eq_vjp (L : (ι → ℝ) →ₗ[ℝ] (κ → ℝ)) (w : ι → ℝ)
    (J : Matrix ι κ ℝ) (hJ : ∀ r, J r = L (Pi.single r 1)) : w ᵥ* J = L w := by
  rw [← vecMul_rows_of_linear L w]
  congr 1
  ext r c
  simp [hJ r]

/-- (N) Row-scaling the Jacobian by `c` (i.e. `diag(c) · J`) and aggregating with weights `w`
equals aggregating `J` with weights `w * c` (C09 / PCGrad bookkeeping). -/
theorem vecMul_diagonal_mul (c w : ι → ℝ) (J : Matrix ι κ ℝ) :
    w ᵥ* (Matrix.diagonal c * J) = (w * c) ᵥ* J := by
  rw [← Matrix.vecMul_vecMul]
  congr 1
  ext i
  simp [Matrix.vecMul_diagonal]

/-- (N) `c ↦ w ᵥ* (diag(c) · J)` is additive in `c`. -/
theorem lin_const_add (c₁ c₂ w : ι → ℝ) (J : Matrix ι κ ℝ) :
    w ᵥ* (Matrix.diagonal (c₁ + c₂) * J)
      = w ᵥ* (Matrix.diagonal c₁ * J) + w ᵥ* (Matrix.diagonal c₂ * J) := by
  simp only [vecMul_diagonal_mul, mul_add, Matrix.add_vecMul]

/-- (N) `c ↦ w ᵥ* (diag(c) · J)` is homogeneous in `c`. -/
theorem lin_const_smul (t : ℝ) (c w : ι → ℝ) (J : Matrix ι κ ℝ) :
    w ᵥ* (Matrix.diagonal (t • c) * J) = t • (w ᵥ* (Matrix.diagonal c * J)) := by
  simp only [vecMul_diagonal_mul, mul_smul_comm, Matrix.smul_vecMul]

/-- (N, C09) With a constant weight vector `w`, scaling row `i` of `J` by `c i` scales its
contribution: the output is `∑ i, (w i * c i) • J i`. -/
theorem lin_const (c w : ι → ℝ) (J : Matrix ι κ ℝ) :
    w ᵥ* (Matrix.diagonal c * J) = ∑ i, (w i * c i) • J i := by
  rw [vecMul_diagonal_mul]
  ext k
  simp [vecMul, dotProduct, Finset.sum_apply]

omit [DecidableEq ι] in
/-- The aggregation `w ᵥ* J` is the weighted sum of rows. -/
theorem vecMul_eq_sum_rows (w : ι → ℝ) (J : Matrix ι κ ℝ) :
    w ᵥ* J = ∑ i, w i • J i := by
  ext k
  simp [vecMul, dotProduct, Finset.sum_apply]

end TorchJDSpec
