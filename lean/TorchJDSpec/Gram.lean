import TorchJDSpec.Basic

/-!
  Structural facts about Gramian-based weighted aggregators `gramAgg f J = f (J Jᵀ) ᵥ* J`
  (properties C08, C09, C10, C11).
-/

namespace TorchJDSpec
open Matrix

variable {ι κ : Type*} [Fintype ι] [Fintype κ]

/-- (C08) Orthogonal change of parameter coordinates: the Gramian is unchanged, hence the
output is transformed by the same orthogonal matrix. -/
theorem gramAgg_orthogonal [DecidableEq κ] (f : Matrix ι ι ℝ → (ι → ℝ)) (J : Matrix ι κ ℝ)
    (Q : Matrix κ κ ℝ) (hQ : Q * Qᵀ = 1) : gramAgg f (J * Q) = gramAgg f J ᵥ* Q := by
  unfold gramAgg
  have hG : J * Q * (J * Q)ᵀ = J * Jᵀ := by
    rw [Matrix.transpose_mul, Matrix.mul_assoc, ← Matrix.mul_assoc Q, hQ, Matrix.one_mul]
  rw [hG, Matrix.vecMul_vecMul]

omit [Fintype ι] in
/-- (C08) The Gramian itself is invariant under a right-orthogonal `Q` (also for rectangular
`Q : κ × κ'` with `Q Qᵀ = 1`, e.g. zero-padding / isometric embedding of parameter space). -/
theorem gram_mul_orthogonal {κ' : Type*} [Fintype κ'] [DecidableEq κ] (J : Matrix ι κ ℝ)
    (Q : Matrix κ κ' ℝ) (hQ : Q * Qᵀ = 1) : (J * Q) * (J * Q)ᵀ = J * Jᵀ := by
  rw [Matrix.transpose_mul, Matrix.mul_assoc, ← Matrix.mul_assoc Q, hQ, Matrix.one_mul]

/-- (C08, rectangular) Isometric embedding of the parameter space. -/
theorem gramAgg_isometry {κ' : Type*} [Fintype κ'] [DecidableEq κ]
    (f : Matrix ι ι ℝ → (ι → ℝ)) (J : Matrix ι κ ℝ)
    (Q : Matrix κ κ' ℝ) (hQ : Q * Qᵀ = 1) : gramAgg f (J * Q) = gramAgg f J ᵥ* Q := by
  unfold gramAgg
  rw [gram_mul_orthogonal J Q hQ, Matrix.vecMul_vecMul]

/-- (C10) Permutation of the objectives (rows): if the weighting is permutation-equivariant in
the Gramian, the aggregation is permutation-invariant. -/
theorem gramAgg_perm_invariant (f : Matrix ι ι ℝ → (ι → ℝ))
    (hf : ∀ (σ : Equiv.Perm ι) (G : Matrix ι ι ℝ), f (G.submatrix σ σ) = f G ∘ σ)
    (σ : Equiv.Perm ι) (J : Matrix ι κ ℝ) :
    gramAgg f (J.submatrix σ id) = gramAgg f J := by
  unfold gramAgg
  have hG : J.submatrix σ id * (J.submatrix σ id)ᵀ = (J * Jᵀ).submatrix σ σ := by
    ext i j
    simp [Matrix.mul_apply]
  rw [hG, hf]
  ext k
  simp only [vecMul, dotProduct, Function.comp_apply, Matrix.submatrix_apply, id_eq]
  exact Equiv.sum_comp σ (fun i => f (J * Jᵀ) i * J i k)

/-- (C09/C11) Homogeneity: if the weighting ignores the scale `t²` of the Gramian, the
aggregation is homogeneous of degree one (for every real `t`, in particular `t > 0`). -/
theorem gramAgg_homogeneous (f : Matrix ι ι ℝ → (ι → ℝ)) (t : ℝ)
    (hf : ∀ G : Matrix ι ι ℝ, f ((t * t) • G) = f G) (J : Matrix ι κ ℝ) :
    gramAgg f (t • J) = t • gramAgg f J := by
  unfold gramAgg
  have hG : (t • J) * (t • J)ᵀ = (t * t) • (J * Jᵀ) := by
    rw [Matrix.transpose_smul, Matrix.smul_mul, Matrix.mul_smul, smul_smul]
  rw [hG, hf, Matrix.vecMul_smul]

omit [Fintype ι] in
/-- (C08) Permutation (more generally, bijective re-indexing) of the parameters (columns):
the Gramian is unchanged. -/
theorem gram_col_reindex {κ' : Type*} [Fintype κ'] (J : Matrix ι κ ℝ) (σ : κ' ≃ κ) :
    J.submatrix id σ * (J.submatrix id σ)ᵀ = J * Jᵀ := by
  ext i j
  simp only [Matrix.mul_apply, Matrix.submatrix_apply, Matrix.transpose_apply, id_eq]
  exact Equiv.sum_comp σ (fun k => J i k * J j k)

/-- (C08) Column permutation: the output is permuted in the same way. -/
theorem gramAgg_col_perm {κ' : Type*} [Fintype κ'] (f : Matrix ι ι ℝ → (ι → ℝ))
    (J : Matrix ι κ ℝ) (σ : κ' ≃ κ) :
    gramAgg f (J.submatrix id σ) = gramAgg f J ∘ σ := by
  unfold gramAgg
  rw [gram_col_reindex]
  ext k
  simp [vecMul, dotProduct]

omit [Fintype ι] in
/-- (C08) Appending zero columns does not change the Gramian. -/
theorem gram_fromCols_zero {κ' : Type*} [Fintype κ'] (J : Matrix ι κ ℝ) :
    (Matrix.fromCols J (0 : Matrix ι κ' ℝ)) * (Matrix.fromCols J (0 : Matrix ι κ' ℝ))ᵀ
      = J * Jᵀ := by
  rw [Matrix.transpose_fromCols, Matrix.fromCols_mul_fromRows]
  simp

/-- (C08) Appending zero columns: the output is the old output on the old coordinates and `0`
on the new ones. -/
theorem gramAgg_zero_cols {κ' : Type*} [Fintype κ'] (f : Matrix ι ι ℝ → (ι → ℝ))
    (J : Matrix ι κ ℝ) :
    gramAgg f (Matrix.fromCols J (0 : Matrix ι κ' ℝ)) = Sum.elim (gramAgg f J) 0 := by
  unfold gramAgg
  rw [gram_fromCols_zero, Matrix.vecMul_fromCols]
  simp

/-- (C08) Any weighted aggregation lies in the row span of `J`. -/
theorem gramAgg_mem_rowSpan (f : Matrix ι ι ℝ → (ι → ℝ)) (J : Matrix ι κ ℝ) :
    gramAgg f J ∈ Submodule.span ℝ (Set.range J) := by
  unfold gramAgg
  have : f (J * Jᵀ) ᵥ* J = ∑ i, f (J * Jᵀ) i • J i := by
    ext k
    simp [vecMul, dotProduct, Finset.sum_apply]
  rw [this]
  exact Submodule.sum_mem _ fun i _ =>
    Submodule.smul_mem _ _ (Submodule.subset_span (Set.mem_range_self i))

end TorchJDSpec
