import TorchJDSpec.UPGrad

/-!
  Aggregators checked against their published definitions (C18): CAGrad, softmax (Random /
  GradDrop probabilities), MGDA's Frank–Wolfe step, PCGrad; and the MGDA allowance for C04.
-/

namespace TorchJDSpec
open Matrix

variable {ι κ : Type*} [Fintype ι] [Fintype κ]

/-! ### Euclidean norm helpers -/

theorem dotProduct_self_nonneg' (x : κ → ℝ) : 0 ≤ x ⬝ᵥ x :=
  Finset.sum_nonneg fun i _ => mul_self_nonneg (x i)

theorem l2norm_nonneg (x : κ → ℝ) : 0 ≤ l2norm x :=
  Real.sqrt_nonneg _

theorem l2norm_sq (x : κ → ℝ) : l2norm x ^ 2 = x ⬝ᵥ x :=
  Real.sq_sqrt (dotProduct_self_nonneg' x)

theorem l2norm_smul (t : ℝ) (x : κ → ℝ) : l2norm (t • x) = |t| * l2norm x := by
  unfold l2norm
  rw [smul_dotProduct, dotProduct_smul, smul_eq_mul, smul_eq_mul, ← mul_assoc,
    Real.sqrt_mul (mul_self_nonneg t), Real.sqrt_mul_self_eq_abs]

/-- `‖Jᵀ w‖² = wᵀ (J Jᵀ) w`: norms of aggregations can be computed in Gramian space. -/
theorem vecMul_dotProduct_self (J : Matrix ι κ ℝ) (w : ι → ℝ) :
    (w ᵥ* J) ⬝ᵥ (w ᵥ* J) = w ⬝ᵥ ((J * Jᵀ) *ᵥ w) := by
  rw [gram_mulVec, Matrix.dotProduct_mulVec]

/-- Cauchy–Schwarz for the dot product, in `l2norm` form. -/
theorem abs_dotProduct_le (x y : κ → ℝ) : |x ⬝ᵥ y| ≤ l2norm x * l2norm y := by
  unfold l2norm
  rw [← Real.sqrt_mul (dotProduct_self_nonneg' x)]
  refine Real.abs_le_sqrt ?_
  have := Finset.sum_mul_sq_le_sq_mul_sq Finset.univ x y
  simpa [dotProduct, pow_two] using this

/-! ### (K) CAGrad -/

/-- (K, C18) CAGrad: the output `(u + t w)ᵀ J` with `t = c ‖g₀‖ / ‖g_w‖` lies at distance exactly
`c ‖g₀‖` from `g₀ = uᵀ J` (`u` the uniform weights, `g_w = wᵀ J`). -/
theorem cagrad_distance (J : Matrix ι κ ℝ) (u w : ι → ℝ) (c : ℝ) (hc : 0 ≤ c)
    (hw : l2norm (w ᵥ* J) ≠ 0) :
    l2norm ((u + (c * l2norm (u ᵥ* J) / l2norm (w ᵥ* J)) • w) ᵥ* J - u ᵥ* J)
      = c * l2norm (u ᵥ* J) := by
  have hpos : 0 < l2norm (w ᵥ* J) := lt_of_le_of_ne (l2norm_nonneg _) (Ne.symm hw)
  have ht : 0 ≤ c * l2norm (u ᵥ* J) / l2norm (w ᵥ* J) :=
    div_nonneg (mul_nonneg hc (l2norm_nonneg _)) hpos.le
  rw [Matrix.add_vecMul, add_sub_cancel_left, Matrix.smul_vecMul, l2norm_smul, abs_of_nonneg ht]
  field_simp

/-- (K, C18) CAGrad with `c = 0` is the mean (the output is `uᵀ J`). -/
theorem cagrad_c_zero (J : Matrix ι κ ℝ) (u w : ι → ℝ) :
    (u + ((0 : ℝ) * l2norm (u ᵥ* J) / l2norm (w ᵥ* J)) • w) ᵥ* J = u ᵥ* J := by
  simp

/-- (K, C18) The step size can be computed from any positive multiple `G' = k • J Jᵀ` of the
Gramian (the code uses the normalised Gramian and its square-root factor). -/
theorem cagrad_ratio_gram (J : Matrix ι κ ℝ) (u w : ι → ℝ) (k : ℝ) (hk : 0 < k) :
    Real.sqrt (u ⬝ᵥ ((k • (J * Jᵀ)) *ᵥ u)) / Real.sqrt (w ⬝ᵥ ((k • (J * Jᵀ)) *ᵥ w))
      = l2norm (u ᵥ* J) / l2norm (w ᵥ* J) := by
  unfold l2norm
  rw [Matrix.smul_mulVec, Matrix.smul_mulVec, dotProduct_smul, dotProduct_smul,
    smul_eq_mul, smul_eq_mul, Real.sqrt_mul hk.le, Real.sqrt_mul hk.le,
    vecMul_dotProduct_self, vecMul_dotProduct_self]
  have : Real.sqrt k ≠ 0 := (Real.sqrt_pos.mpr hk).ne'
  rw [mul_div_mul_left _ _ this]

/-! ### (L) Softmax -/

theorem sum_exp_pos [Nonempty ι] (x : ι → ℝ) : 0 < ∑ j, Real.exp (x j) :=
  Finset.sum_pos (fun _ _ => Real.exp_pos _) Finset.univ_nonempty

/-- (L, C18) Softmax is strictly positive. -/
theorem softmax_pos [Nonempty ι] (x : ι → ℝ) (i : ι) : 0 < softmax x i :=
  div_pos (Real.exp_pos _) (sum_exp_pos x)

/-- (L, C18) Softmax sums to one. -/
theorem softmax_sum [Nonempty ι] (x : ι → ℝ) : ∑ i, softmax x i = 1 := by
  unfold softmax
  rw [← Finset.sum_div]
  exact div_self (sum_exp_pos x).ne'

/-- (L, C18) Softmax lies on the probability simplex. -/
theorem softmax_simplex [Nonempty ι] (x : ι → ℝ) : IsSimplex (softmax x) :=
  ⟨fun i => (softmax_pos x i).le, softmax_sum x⟩

/-! ### (M) MGDA: one Frank–Wolfe step with exact line search -/

/-- The step size chosen by `_frank_wolfe_solver`. -/
noncomputable def fwGamma (a b c : ℝ) : ℝ :=
  if c ≤ a then 1 else if b ≤ a then 0 else (b - a) / (b + c - 2 * a)

/-- The objective along the segment: `‖(1-δ) x + δ e‖²` with `a = ⟨x,e⟩, b = ‖x‖², c = ‖e‖²`. -/
def fwPhi (a b c δ : ℝ) : ℝ := (1 - δ) ^ 2 * b + 2 * δ * (1 - δ) * a + δ ^ 2 * c

/-- (M, C18) The step size lies in `[0, 1]`. -/
theorem fwGamma_mem_Icc (a b c : ℝ) : 0 ≤ fwGamma a b c ∧ fwGamma a b c ≤ 1 := by
  unfold fwGamma
  split_ifs with h1 h2
  · exact ⟨zero_le_one, le_rfl⟩
  · exact ⟨le_rfl, zero_le_one⟩
  · have h1' := not_le.mp h1
    have h2' := not_le.mp h2
    have hq : 0 < b + c - 2 * a := by linarith
    refine ⟨div_nonneg (by linarith) hq.le, ?_⟩
    rw [div_le_one hq]
    linarith

/-- (M, C18) Exact line search: `fwGamma` minimises `fwPhi` over `[0, 1]`, provided
`b + c - 2a = ‖x - e‖² ≥ 0`. -/
theorem fwGamma_optimal (a b c : ℝ) (hq : 0 ≤ b + c - 2 * a) (δ : ℝ) (h0 : 0 ≤ δ)
    (h1 : δ ≤ 1) : fwPhi a b c (fwGamma a b c) ≤ fwPhi a b c δ := by
  unfold fwGamma fwPhi
  split_ifs with hc hb
  · -- γ = 1
    have e : (1 - δ) ^ 2 * b + 2 * δ * (1 - δ) * a + δ ^ 2 * c - c
        = (1 - δ) * ((1 - δ) * (b + c - 2 * a) + 2 * (a - c)) := by ring
    have : 0 ≤ (1 - δ) * ((1 - δ) * (b + c - 2 * a) + 2 * (a - c)) :=
      mul_nonneg (by linarith) (add_nonneg (mul_nonneg (by linarith) hq) (by linarith))
    nlinarith
  · -- γ = 0
    have e : (1 - δ) ^ 2 * b + 2 * δ * (1 - δ) * a + δ ^ 2 * c - b
        = δ * (δ * (b + c - 2 * a) + 2 * (a - b)) := by ring
    have : 0 ≤ δ * (δ * (b + c - 2 * a) + 2 * (a - b)) :=
      mul_nonneg h0 (add_nonneg (mul_nonneg h0 hq) (by linarith))
    nlinarith
  · -- interior
    have hc' := not_le.mp hc
    have hb' := not_le.mp hb
    have hqpos : 0 < b + c - 2 * a := by linarith
    set q := b + c - 2 * a with hqdef
    set γ := (b - a) / q with hγ
    have hγq : γ * q = b - a := div_mul_cancel₀ _ hqpos.ne'
    have e : ((1 - δ) ^ 2 * b + 2 * δ * (1 - δ) * a + δ ^ 2 * c)
        - ((1 - γ) ^ 2 * b + 2 * γ * (1 - γ) * a + γ ^ 2 * c)
        = q * (δ - γ) ^ 2 + 2 * (δ - γ) * (γ * q - (b - a)) := by
      rw [hqdef]; ring
    have : 0 ≤ q * (δ - γ) ^ 2 := mul_nonneg hqpos.le (sq_nonneg _)
    rw [hγq] at e
    linarith

/-- (M, C18) In particular the objective does not increase: `‖(1-γ)x + γe‖² ≤ ‖x‖²`. -/
theorem fwGamma_descent (a b c : ℝ) (hq : 0 ≤ b + c - 2 * a) :
    fwPhi a b c (fwGamma a b c) ≤ b := by
  have := fwGamma_optimal a b c hq 0 le_rfl zero_le_one
  simpa [fwPhi] using this

/-- `fwPhi` is the squared norm along the segment, in Gramian (weight) space: for symmetric `G`,
`Q((1-δ) α + δ e) = fwPhi (α·Ge) (α·Gα) (e·Ge) δ`. -/
theorem quad_segment (G : Matrix ι ι ℝ) (hG : G.IsSymm) (α e : ι → ℝ) (δ : ℝ) :
    ((1 - δ) • α + δ • e) ⬝ᵥ (G *ᵥ ((1 - δ) • α + δ • e))
      = fwPhi (α ⬝ᵥ (G *ᵥ e)) (α ⬝ᵥ (G *ᵥ α)) (e ⬝ᵥ (G *ᵥ e)) δ := by
  unfold fwPhi
  simp only [Matrix.mulVec_add, Matrix.mulVec_smul, add_dotProduct, dotProduct_add,
    smul_dotProduct, dotProduct_smul, smul_eq_mul]
  rw [dotProduct_mulVec_symm G hG e α]
  ring

/-- (M, C18) One MGDA iteration, as in the Python loop (`G = J Jᵀ`, `e = e_t`): the new weights
have a squared aggregate norm that is minimal on the segment `[α, e]`, hence not larger than before. -/
theorem mgda_step_descent (J : Matrix ι κ ℝ) (α e : ι → ℝ) :
    let G := J * Jᵀ
    let γ := fwGamma (α ⬝ᵥ (G *ᵥ e)) (α ⬝ᵥ (G *ᵥ α)) (e ⬝ᵥ (G *ᵥ e))
    (0 ≤ γ ∧ γ ≤ 1) ∧
      (∀ δ : ℝ, 0 ≤ δ → δ ≤ 1 →
        l2norm (((1 - γ) • α + γ • e) ᵥ* J) ≤ l2norm (((1 - δ) • α + δ • e) ᵥ* J)) ∧
      l2norm (((1 - γ) • α + γ • e) ᵥ* J) ≤ l2norm (α ᵥ* J) := by
  intro G γ
  have hG : G.IsSymm := by
    rw [Matrix.IsSymm, Matrix.transpose_mul, Matrix.transpose_transpose]
  have hq : 0 ≤ (α ⬝ᵥ (G *ᵥ α)) + (e ⬝ᵥ (G *ᵥ e)) - 2 * (α ⬝ᵥ (G *ᵥ e)) := by
    have h := gram_quad_nonneg J (α - e)
    have e' : (α - e) ⬝ᵥ (G *ᵥ (α - e))
        = (α ⬝ᵥ (G *ᵥ α)) + (e ⬝ᵥ (G *ᵥ e)) - 2 * (α ⬝ᵥ (G *ᵥ e)) := by
      simp only [Matrix.mulVec_sub, sub_dotProduct, dotProduct_sub]
      rw [dotProduct_mulVec_symm G hG e α]
      ring
    rw [← e']; exact h
  have hopt : ∀ δ : ℝ, 0 ≤ δ → δ ≤ 1 →
      l2norm (((1 - γ) • α + γ • e) ᵥ* J) ≤ l2norm (((1 - δ) • α + δ • e) ᵥ* J) := by
    intro δ h0 h1
    unfold l2norm
    rw [vecMul_dotProduct_self, vecMul_dotProduct_self, quad_segment G hG, quad_segment G hG]
    exact Real.sqrt_le_sqrt (fwGamma_optimal _ _ _ hq δ h0 h1)
  refine ⟨fwGamma_mem_Icc _ _ _, hopt, ?_⟩
  have := hopt 0 le_rfl zero_le_one
  simpa using this

/-- (M, C18) The Frank–Wolfe update keeps the weights on the simplex. -/
theorem simplex_segment (α e : ι → ℝ) (hα : IsSimplex α) (he : IsSimplex e) (γ : ℝ)
    (h0 : 0 ≤ γ) (h1 : γ ≤ 1) : IsSimplex ((1 - γ) • α + γ • e) := by
  refine ⟨fun i => ?_, ?_⟩
  · simp only [Pi.add_apply, Pi.smul_apply, smul_eq_mul]
    exact add_nonneg (mul_nonneg (by linarith) (hα.1 i)) (mul_nonneg h0 (he.1 i))
  · simp only [Pi.add_apply, Pi.smul_apply, smul_eq_mul, Finset.sum_add_distrib,
      ← Finset.mul_sum, hα.2, he.2]
    ring

/-- A vertex of the simplex. -/
theorem simplex_single [DecidableEq ι] (i : ι) : IsSimplex (Pi.single i (1 : ℝ) : ι → ℝ) := by
  refine ⟨fun j => ?_, by simp⟩
  by_cases h : j = i
  · subst h; simp
  · simp [h]

/-! ### (N) PCGrad -/

/-- One inner-loop update of `_PCGradWeighting.forward`, in weight space:
`if (G cw) j < 0 then cw[j] -= (G cw) j / G j j`. -/
noncomputable def pcStep [DecidableEq ι] (G : Matrix ι ι ℝ) (cw : ι → ℝ) (j : ι) : ι → ℝ :=
  if (G *ᵥ cw) j < 0 then cw - ((G *ᵥ cw) j / G j j) • (Pi.single j 1 : ι → ℝ) else cw

/-- (N, C18) No conflict ⇒ no update: if the Gramian has non-negative entries and the current
weights are non-negative, the PCGrad step is the identity. -/
theorem pcStep_no_conflict [DecidableEq ι] (G : Matrix ι ι ℝ) (hG : ∀ i j, 0 ≤ G i j)
    (cw : ι → ℝ) (hcw : ∀ i, 0 ≤ cw i) (j : ι) : pcStep G cw j = cw := by
  unfold pcStep
  rw [if_neg (not_lt.mpr (mulVec_nonneg_of_nonneg G hG cw hcw j))]

/-- (N, C18) With no conflicting pair, the whole inner loop (any visiting order `l`, with or
without the skipped index) leaves `eᵢ` unchanged. -/
theorem pcgrad_inner_no_conflict [DecidableEq ι] (G : Matrix ι ι ℝ) (hG : ∀ i j, 0 ≤ G i j)
    (i : ι) (l : List ι) :
    l.foldl (pcStep G) (Pi.single i 1 : ι → ℝ) = (Pi.single i 1 : ι → ℝ) := by
  have hnn : ∀ k, 0 ≤ (Pi.single i 1 : ι → ℝ) k := by
    intro k
    by_cases h : k = i
    · subst h; simp
    · simp [h]
  induction l with
  | nil => rfl
  | cons j l ih =>
    rw [List.foldl_cons, pcStep_no_conflict G hG _ hnn j]
    exact ih

/-- (N, C18) PCGrad without conflicts returns the sum of the rows: the final weights
`∑ᵢ (inner loop from eᵢ)` are all ones. -/
theorem pcgrad_no_conflict [DecidableEq ι] (J : Matrix ι κ ℝ)
    (hG : ∀ i j, 0 ≤ (J * Jᵀ) i j) (order : ι → List ι) :
    (∑ i, (order i).foldl (pcStep (J * Jᵀ)) (Pi.single i 1 : ι → ℝ)) ᵥ* J
      = (fun _ => (1 : ℝ)) ᵥ* J := by
  congr 1
  simp only [pcgrad_inner_no_conflict (J * Jᵀ) hG]
  ext k
  simp [Finset.sum_apply]

/-- (N, C18) When the update fires (and `G j j ≠ 0`), the new combination is orthogonal to row
`j`: `(G cw') j = 0` — the conflicting component has been projected out. -/
theorem pcStep_orthogonal [DecidableEq ι] (G : Matrix ι ι ℝ) (cw : ι → ℝ) (j : ι)
    (hneg : (G *ᵥ cw) j < 0) (hjj : G j j ≠ 0) : (G *ᵥ pcStep G cw j) j = 0 := by
  unfold pcStep
  rw [if_pos hneg, Matrix.mulVec_sub, Matrix.mulVec_smul, Matrix.mulVec_single_one]
  simp only [Pi.sub_apply, Pi.smul_apply, smul_eq_mul, Matrix.col_apply]
  field_simp
  ring

/-- (N, C18) The update only changes coordinate `j` of the weights. -/
theorem pcStep_other [DecidableEq ι] (G : Matrix ι ι ℝ) (cw : ι → ℝ) (j k : ι) (hk : k ≠ j) :
    pcStep G cw j k = cw k := by
  unfold pcStep
  split_ifs
  · simp [hk]
  · rfl

/-! ### (Q) MGDA allowance (C04): approximate min-norm points almost never conflict -/

/-- First-order optimality of the min-norm point `x* = βᵀJ` of the convex hull of the rows:
`⟨y, x*⟩ ≥ ‖x*‖²` for every `y = γᵀJ` in the hull. -/
theorem hull_min_inner (J : Matrix ι κ ℝ) (β : ι → ℝ) (hβ : IsSimplex β)
    (hmin : ∀ γ : ι → ℝ, IsSimplex γ → (β ᵥ* J) ⬝ᵥ (β ᵥ* J) ≤ (γ ᵥ* J) ⬝ᵥ (γ ᵥ* J))
    (γ : ι → ℝ) (hγ : IsSimplex γ) :
    (β ᵥ* J) ⬝ᵥ (β ᵥ* J) ≤ (γ ᵥ* J) ⬝ᵥ (β ᵥ* J) := by
  set xs := β ᵥ* J with hxs
  set y := γ ᵥ* J with hy
  -- p = ⟨x*, y - x*⟩,  D = ‖y - x*‖²
  set p := y ⬝ᵥ xs - xs ⬝ᵥ xs with hp
  set D := (y - xs) ⬝ᵥ (y - xs) with hD
  have hDnn : 0 ≤ D := dotProduct_self_nonneg' _
  have key : ∀ t : ℝ, 0 ≤ t → t ≤ 1 → 0 ≤ 2 * t * p + t * t * D := by
    intro t h0 h1
    have hs := hmin _ (simplex_segment β γ hβ hγ t h0 h1)
    rw [Matrix.add_vecMul, Matrix.smul_vecMul, Matrix.smul_vecMul, ← hxs, ← hy] at hs
    have e : ((1 - t) • xs + t • y) ⬝ᵥ ((1 - t) • xs + t • y)
        = xs ⬝ᵥ xs + 2 * t * p + t * t * D := by
      simp only [hp, hD, add_dotProduct, dotProduct_add, smul_dotProduct, dotProduct_smul,
        smul_eq_mul, sub_dotProduct, dotProduct_sub]
      rw [dotProduct_comm xs y]
      ring
    rw [e] at hs
    linarith
  by_contra hlt
  have hpneg : p < 0 := by
    have := not_le.mp hlt
    simp only [hp]; linarith
  have hDpos : 0 < D := by
    rcases hDnn.eq_or_lt with h | h
    · have := key 1 zero_le_one le_rfl
      rw [← h] at this
      linarith
    · exact h
  set t := min 1 (-p / D) with ht
  have htpos : 0 < t := lt_min one_pos (div_pos (by linarith) hDpos)
  have ht1 : t ≤ 1 := min_le_left _ _
  have ht2 : t * D ≤ -p := (le_div_iff₀ hDpos).mp (min_le_right _ _)
  have := key t htpos.le ht1
  nlinarith

/-- (Q, C04) MGDA allowance: let `x = αᵀJ` be any point of the convex hull of the rows (the
Frank–Wolfe iterate) and `x* = βᵀJ` the min-norm point of the hull.  If all rows satisfy
`‖gᵢ‖ ≤ s`, then `⟨gᵢ, x⟩ ≥ -s √(‖x‖² - ‖x*‖²)`: the conflict is controlled by the optimality gap. -/
theorem hull_allowance [DecidableEq ι] (J : Matrix ι κ ℝ) (α β : ι → ℝ) (hα : IsSimplex α)
    (hβ : IsSimplex β)
    (hmin : ∀ γ : ι → ℝ, IsSimplex γ → (β ᵥ* J) ⬝ᵥ (β ᵥ* J) ≤ (γ ᵥ* J) ⬝ᵥ (γ ᵥ* J))
    (s : ℝ) (hs : 0 ≤ s) (hrow : ∀ i, l2norm (J i) ≤ s) (i : ι) :
    -(s * Real.sqrt ((α ᵥ* J) ⬝ᵥ (α ᵥ* J) - (β ᵥ* J) ⬝ᵥ (β ᵥ* J))) ≤ (J *ᵥ (α ᵥ* J)) i := by
  set x := α ᵥ* J with hx
  set xs := β ᵥ* J with hxs
  have hrow_eq : (Pi.single i (1 : ℝ) : ι → ℝ) ᵥ* J = J i := Matrix.single_one_vecMul i J
  -- (1) ⟨gᵢ, x*⟩ ≥ ‖x*‖² ≥ 0
  have h1 : xs ⬝ᵥ xs ≤ J i ⬝ᵥ xs := by
    have := hull_min_inner J β hβ hmin _ (simplex_single i)
    rwa [hrow_eq] at this
  have h1' : 0 ≤ J i ⬝ᵥ xs := le_trans (dotProduct_self_nonneg' xs) h1
  -- (2) ‖x - x*‖² ≤ ‖x‖² - ‖x*‖²
  have h2 : xs ⬝ᵥ xs ≤ x ⬝ᵥ xs := hull_min_inner J β hβ hmin α hα
  have h3 : (x - xs) ⬝ᵥ (x - xs) ≤ x ⬝ᵥ x - xs ⬝ᵥ xs := by
    have e : (x - xs) ⬝ᵥ (x - xs) = x ⬝ᵥ x - 2 * (x ⬝ᵥ xs) + xs ⬝ᵥ xs := by
      simp only [sub_dotProduct, dotProduct_sub]
      rw [dotProduct_comm xs x]
      ring
    rw [e]; linarith
  -- (3) Cauchy–Schwarz on ⟨gᵢ, x - x*⟩
  have h4 : |J i ⬝ᵥ (x - xs)| ≤ s * Real.sqrt (x ⬝ᵥ x - xs ⬝ᵥ xs) := by
    refine le_trans (abs_dotProduct_le _ _) ?_
    exact mul_le_mul (hrow i) (Real.sqrt_le_sqrt h3) (Real.sqrt_nonneg _) hs
  have h5 : (J *ᵥ x) i = J i ⬝ᵥ xs + J i ⬝ᵥ (x - xs) := by
    rw [← dotProduct_add]
    simp [mulVec]
  rw [h5]
  have := neg_abs_le (J i ⬝ᵥ (x - xs))
  linarith

end TorchJDSpec
