/-
  TorchJDSpec.Basic — specification-level definitions shared by the bridge lemmas.

  Conventions: a Jacobian is `J : Matrix ι κ ℝ` (rows = objectives, indexed by `ι`;
  columns = parameters, indexed by `κ`); weights are `w : ι → ℝ`; an aggregation is
  `w ᵥ* J : κ → ℝ` (i.e. `Jᵀ w`).  All index types are arbitrary finite types, so every
  statement specialises to `Fin m`, `Fin n`.
-/
import Mathlib.LinearAlgebra.Matrix.PosDef
import Mathlib.LinearAlgebra.Matrix.NonsingularInverse
import Mathlib.Data.Matrix.ColumnRowPartitioned
import Mathlib.Analysis.SpecialFunctions.Exp
import Mathlib.Analysis.SpecialFunctions.Sqrt
import Mathlib.Order.Interval.Finset.Fin
import Mathlib.Tactic

namespace TorchJDSpec
open Matrix

variable {ι κ : Type*} [Fintype ι] [Fintype κ]

/-- `w` is a minimiser of `v ↦ vᵀ G v` over the shifted orthant `{v | u ≤ v}`.
This is the QP of `_project_weight_vector` (`_dual_cone_utils.py`). -/
def IsQPMin (G : Matrix ι ι ℝ) (u w : ι → ℝ) : Prop :=
  (∀ i, u i ≤ w i) ∧ ∀ v : ι → ℝ, (∀ i, u i ≤ v i) → w ⬝ᵥ (G *ᵥ w) ≤ v ⬝ᵥ (G *ᵥ v)

/-- Generic inequality-constrained QP, in the form taken by `qpsolvers.solve_qp(P, q, A, h)`:
minimise `½ xᵀ P x + qᵀ x` subject to `A x ≤ h`. -/
def IsGenQPMin {ρ : Type*} [Fintype ρ] (P : Matrix ι ι ℝ) (q : ι → ℝ) (A : Matrix ρ ι ℝ)
    (h : ρ → ℝ) (x : ι → ℝ) : Prop :=
  (∀ r, (A *ᵥ x) r ≤ h r) ∧
    ∀ y : ι → ℝ, (∀ r, (A *ᵥ y) r ≤ h r) →
      (1 / 2 : ℝ) * (x ⬝ᵥ (P *ᵥ x)) + q ⬝ᵥ x ≤ (1 / 2 : ℝ) * (y ⬝ᵥ (P *ᵥ y)) + q ⬝ᵥ y

/-- A Gramian-based weighted aggregator: weights are a function `f` of the Gramian `J Jᵀ`
only, and the output is the corresponding combination of the rows of `J`. -/
def gramAgg (f : Matrix ι ι ℝ → (ι → ℝ)) (J : Matrix ι κ ℝ) : κ → ℝ :=
  f (J * Jᵀ) ᵥ* J

/-- The probability simplex. -/
def IsSimplex (α : ι → ℝ) : Prop := (∀ i, 0 ≤ α i) ∧ ∑ i, α i = 1

/-- Softmax. -/
noncomputable def softmax (x : ι → ℝ) (i : ι) : ℝ := Real.exp (x i) / ∑ j, Real.exp (x j)

/-- Euclidean norm of a plain vector `x : κ → ℝ`, via the dot product.  (Mathlib's `‖·‖` on a
bare function type is the sup norm, so it is deliberately *not* used in this library.) -/
noncomputable def l2norm (x : κ → ℝ) : ℝ := Real.sqrt (x ⬝ᵥ x)

end TorchJDSpec
