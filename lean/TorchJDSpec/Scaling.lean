import TorchJDSpec.Definitions
import TorchJDSpec.Impartial

/-!
  Linearity under row scaling `J ↦ diag(c) J`, `c > 0` (C09) for PCGrad and ConFIG, and the
  explicit cosine statement for ConFIG (C17).
-/

namespace TorchJDSpec
open Matrix

variable {ι κ : Type*} [Fintype ι] [Fintype κ]

/-! ### PCGrad (`lin_pcgrad`) -/

/-- `(D G D) v = c ∘ (G (c ∘ v))` for `D = diag(c)`. -/
theorem diag_conj_mulVec [DecidableEq ι] (G : Matrix ι ι ℝ) (c v : ι → ℝ) :
    (Matrix.diagonal c * G * Matrix.diagonal c) *ᵥ v = c * (G *ᵥ (c * v)) := by
  have h1 : Matrix.diagonal c *ᵥ v = c * v := by
    ext i; simp [Matrix.mulVec_diagonal]
  rw [← Matrix.mulVec_mulVec, ← Matrix.mulVec_mulVec, h1]
  ext i
  simp [Matrix.mulVec_diagonal]

/-- (C09) Relational invariant of PCGrad's inner loop under row scaling: if the scaled run's
weights satisfy `c ∘ cw' = t • cw` (with `t = cᵢ > 0`), the relation is preserved by one update
(the conflict test takes the same side and the correction is rescaled consistently). -/
theorem pcStep_row_scaling [DecidableEq ι] (G : Matrix ι ι ℝ) (c : ι → ℝ) (hc : ∀ i, 0 < c i)
    (t : ℝ) (ht : 0 < t) (cw cw' : ι → ℝ) (hrel : c * cw' = t • cw) (j : ι) :
    c * pcStep (Matrix.diagonal c * G * Matrix.diagonal c) cw' j = t • pcStep G cw j := by
  have hip : ((Matrix.diagonal c * G * Matrix.diagonal c) *ᵥ cw') j = c j * t * (G *ᵥ cw) j := by
    rw [diag_conj_mulVec, hrel, Matrix.mulVec_smul]
    simp only [Pi.mul_apply, Pi.smul_apply, smul_eq_mul]
    ring
  have hdiag : (Matrix.diagonal c * G * Matrix.diagonal c) j j = c j * c j * G j j := by
    simp [Matrix.mul_apply, Matrix.diagonal_apply, mul_comm, mul_left_comm]
  have hsign : ((Matrix.diagonal c * G * Matrix.diagonal c) *ᵥ cw') j < 0 ↔ (G *ᵥ cw) j < 0 := by
    rw [hip]
    constructor
    · intro h
      by_contra hnn
      have := mul_nonneg (mul_pos (hc j) ht).le (not_lt.mp hnn)
      linarith
    · intro h
      exact mul_neg_of_pos_of_neg (mul_pos (hc j) ht) h
  unfold pcStep
  by_cases hneg : (G *ᵥ cw) j < 0
  · rw [if_pos hneg, if_pos (hsign.mpr hneg), hip, hdiag]
    ext k
    have hk := congrFun hrel k
    simp only [Pi.mul_apply, Pi.smul_apply, smul_eq_mul] at hk
    simp only [Pi.mul_apply, Pi.sub_apply, Pi.smul_apply, smul_eq_mul]
    by_cases hkj : k = j
    · subst hkj
      simp only [Pi.single_eq_same, mul_one]
      have hck : c k ≠ 0 := (hc k).ne'
      rw [mul_sub, hk]
      by_cases hG : G k k = 0
      · simp [hG]
      · field_simp
    · simp only [Pi.single_eq_of_ne hkj, mul_zero, sub_zero]
      exact hk
  · rw [if_neg hneg, if_neg (fun h => hneg (hsign.mp h))]
    exact hrel

/-- (C09) The relation is preserved by the whole inner loop, for any visiting order. -/
theorem pcgrad_inner_row_scaling [DecidableEq ι] (G : Matrix ι ι ℝ) (c : ι → ℝ)
    (hc : ∀ i, 0 < c i) (t : ℝ) (ht : 0 < t) (l : List ι) (cw cw' : ι → ℝ)
    (hrel : c * cw' = t • cw) :
    c * l.foldl (pcStep (Matrix.diagonal c * G * Matrix.diagonal c)) cw' = t • l.foldl (pcStep G) cw := by
  induction l generalizing cw cw' with
  | nil => exact hrel
  | cons j l ih =>
    rw [List.foldl_cons, List.foldl_cons]
    exact ih _ _ (pcStep_row_scaling G c hc t ht cw cw' hrel j)

/-- (C09) `lin_pcgrad`: with the same visiting orders, PCGrad on `diag(c) J` (`c > 0`) returns
`∑ᵢ cᵢ pᵢ(J)`, where `pᵢ(J)` is the `i`-th projected gradient computed on `J`: the aggregation is
linear in the row scales. -/
theorem lin_pcgrad [DecidableEq ι] (J : Matrix ι κ ℝ) (c : ι → ℝ) (hc : ∀ i, 0 < c i)
    (order : ι → List ι) :
    (∑ i, (order i).foldl
        (pcStep ((Matrix.diagonal c * J) * (Matrix.diagonal c * J)ᵀ)) (Pi.single i 1 : ι → ℝ))
        ᵥ* (Matrix.diagonal c * J)
      = ∑ i, c i • ((order i).foldl (pcStep (J * Jᵀ)) (Pi.single i 1 : ι → ℝ) ᵥ* J) := by
  have hG : (Matrix.diagonal c * J) * (Matrix.diagonal c * J)ᵀ
      = Matrix.diagonal c * (J * Jᵀ) * Matrix.diagonal c := by
    rw [Matrix.transpose_mul, Matrix.diagonal_transpose]
    simp only [Matrix.mul_assoc]
  rw [hG, ← Matrix.vecMul_vecMul]
  have hdiag : ∀ v : ι → ℝ, v ᵥ* Matrix.diagonal c = c * v := by
    intro v; ext i; simp [Matrix.vecMul_diagonal, mul_comm]
  rw [hdiag, Finset.mul_sum, Matrix.sum_vecMul]
  refine Finset.sum_congr rfl fun i _ => ?_
  have h0 : c * (Pi.single i 1 : ι → ℝ) = c i • (Pi.single i 1 : ι → ℝ) := by
    ext k
    by_cases hk : k = i
    · subst hk; simp
    · simp [hk]
  rw [pcgrad_inner_row_scaling (J * Jᵀ) c hc (c i) (hc i) (order i) _ _ h0, Matrix.smul_vecMul]

/-! ### ConFIG (`lin_config`) -/

/-- (C09) Unit rows are invariant under positive row scaling: `(c g)/‖c g‖ = g/‖g‖` for `c > 0`
(also for `g = 0`, where both sides are `0` — `nan_to_num` in the Python code). -/
theorem unit_row_scale_invariant (g : κ → ℝ) (c : ℝ) (hc : 0 < c) :
    (1 / l2norm (c • g)) • (c • g) = (1 / l2norm g) • g := by
  rw [l2norm_smul, abs_of_pos hc, smul_smul]
  congr 1
  by_cases hg : l2norm g = 0
  · simp [hg]
  · field_simp

/-- (C09) `lin_config`: for a fixed unit target vector `û` (invariant under positive row scaling
by `unit_row_scale_invariant`), the length computed on `diag(c) J` is `∑ᵢ cᵢ ⟨gᵢ, û⟩`, so the output
`length • û` is linear in `c`. -/
theorem lin_config [DecidableEq ι] (J : Matrix ι κ ℝ) (c : ι → ℝ) (uhat : κ → ℝ) :
    (∑ i, ((Matrix.diagonal c * J) *ᵥ uhat) i) • uhat = ∑ i, c i • ((J *ᵥ uhat) i • uhat) := by
  rw [Finset.sum_smul]
  refine Finset.sum_congr rfl fun i _ => ?_
  rw [← Matrix.mulVec_mulVec, Matrix.mulVec_diagonal, smul_smul]

/-! ### ConFIG: explicit cosines (C17) -/

/-- (I, C17) With unit rows `ûᵢ` and `x = P w` for a right inverse `P` of `U`, the cosine between
row `i` and `x` is `wᵢ / ‖x‖`; for `w = 1` (the default) all cosines are equal. -/
theorem config_cos_eq [DecidableEq ι] (U : Matrix ι κ ℝ) (P : Matrix κ ι ℝ) (hUP : U * P = 1)
    (hunit : ∀ i, l2norm (U i) = 1) (w : ι → ℝ) (i : ι) :
    (U i ⬝ᵥ (P *ᵥ w)) / (l2norm (U i) * l2norm (P *ᵥ w)) = w i / l2norm (P *ᵥ w) := by
  have h := congrFun (config_equal_cos U P hUP w) i
  rw [hunit i, one_mul]
  congr 1

end TorchJDSpec
