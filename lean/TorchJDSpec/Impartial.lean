import TorchJDSpec.UPGrad

/-!
  Impartial aggregators (C17): IMTL-G (equal projections), ConFIG (equal cosines),
  Aligned-MTL (balanced / orthogonalised Gramian).
-/

namespace TorchJDSpec
open Matrix

variable {ι κ : Type*} [Fintype ι] [Fintype κ]

/-! ### (H) IMTL-G -/

/-- (H, C17) IMTL-G: if `v` solves `(J Jᵀ) v = d` and `∑ v ≠ 0`, the normalised weights
`w = v / ∑ v` sum to one and the aggregation `x = Jᵀ w` has inner product `d i / ∑ v` with row `i`;
with `d i = ‖gᵢ‖`, the projection `⟨gᵢ, x⟩ / ‖gᵢ‖` is the same constant `1 / ∑ v` for every `i`. -/
theorem imtlg_equal_proj (J : Matrix ι κ ℝ) (d v : ι → ℝ) (hv : (J * Jᵀ) *ᵥ v = d)
    (hsum : ∑ i, v i ≠ 0) :
    (∑ i, ((1 / ∑ j, v j) • v) i = 1) ∧
      ∀ i, (J *ᵥ (((1 / ∑ j, v j) • v) ᵥ* J)) i = d i / ∑ j, v j := by
  constructor
  · simp only [Pi.smul_apply, smul_eq_mul]
    rw [← Finset.mul_sum, one_div, inv_mul_cancel₀ hsum]
  · intro i
    rw [← gram_mulVec, Matrix.mulVec_smul, hv]
    simp only [Pi.smul_apply, smul_eq_mul]
    ring

/-- (H, C17) Version with the matrix inverse (`pinv` of an invertible Gramian is its inverse). -/
theorem imtlg_equal_proj_inv [DecidableEq ι] (J : Matrix ι κ ℝ) (d : ι → ℝ)
    (hG : IsUnit (J * Jᵀ).det) (hsum : ∑ i, ((J * Jᵀ)⁻¹ *ᵥ d) i ≠ 0) :
    let v := (J * Jᵀ)⁻¹ *ᵥ d
    let w := (1 / ∑ j, v j) • v
    (∑ i, w i = 1) ∧ ∀ i, (J *ᵥ (w ᵥ* J)) i = d i / ∑ j, v j := by
  intro v w
  refine imtlg_equal_proj J d v ?_ hsum
  show (J * Jᵀ) *ᵥ ((J * Jᵀ)⁻¹ *ᵥ d) = d
  rw [Matrix.mulVec_mulVec, Matrix.mul_nonsing_inv _ hG, Matrix.one_mulVec]

/-- (H, C17) Equal projections, spelled out: for rows with `d i ≠ 0`,
`⟨gᵢ, x⟩ / d i` does not depend on `i`. -/
theorem imtlg_equal_proj_ratio (J : Matrix ι κ ℝ) (d v : ι → ℝ) (hv : (J * Jᵀ) *ᵥ v = d)
    (hsum : ∑ i, v i ≠ 0) (i k : ι) (hi : d i ≠ 0) (hk : d k ≠ 0) :
    (J *ᵥ (((1 / ∑ j, v j) • v) ᵥ* J)) i / d i
      = (J *ᵥ (((1 / ∑ j, v j) • v) ᵥ* J)) k / d k := by
  obtain ⟨-, h⟩ := imtlg_equal_proj J d v hv hsum
  rw [h i, h k]
  field_simp

/-! ### (I) ConFIG -/

/-- (I, C17) ConFIG: with `U` the matrix of unit rows and `P` a right inverse of `U`
(`pinv U` when `U` has full row rank), the direction `x = P w` satisfies `U x = w`, i.e.
`⟨ûᵢ, x⟩ = wᵢ` and hence `cos(gᵢ, x) = wᵢ / ‖x‖`. -/
theorem config_equal_cos [DecidableEq ι] (U : Matrix ι κ ℝ) (P : Matrix κ ι ℝ) (hUP : U * P = 1)
    (w : ι → ℝ) : U *ᵥ (P *ᵥ w) = w := by
  rw [Matrix.mulVec_mulVec, hUP, Matrix.one_mulVec]

/-- (I, C17) In terms of the original rows `gᵢ = nᵢ • ûᵢ` (`J = diag(n) U`):
`⟨gᵢ, x⟩ = nᵢ wᵢ`. -/
theorem config_row_inner [DecidableEq ι] (U : Matrix ι κ ℝ) (P : Matrix κ ι ℝ) (hUP : U * P = 1)
    (nrm w : ι → ℝ) (i : ι) :
    ((Matrix.diagonal nrm * U) *ᵥ (P *ᵥ w)) i = nrm i * w i := by
  rw [← Matrix.mulVec_mulVec, config_equal_cos U P hUP, Matrix.mulVec_diagonal]

/-- (I, C17) The returned vector `out = ℓ • û`, `û = x / r`, still has `U out = (ℓ / r) • w`:
with the default `w = 1` all cosines between `out` and the rows are equal. -/
theorem config_out_cos [DecidableEq ι] (U : Matrix ι κ ℝ) (P : Matrix κ ι ℝ) (hUP : U * P = 1)
    (w : ι → ℝ) (ℓ r : ℝ) :
    U *ᵥ (ℓ • ((1 / r) • (P *ᵥ w))) = (ℓ / r) • w := by
  rw [Matrix.mulVec_smul, Matrix.mulVec_smul, config_equal_cos U P hUP, smul_smul]
  congr 1
  ring

/-- (I, C17) Length identity: the length `∑ᵢ ⟨gᵢ, û⟩` computed by the Python loop is the inner
product of the sum of the rows (`1 ᵥ* J`) with `û`, so `out = ⟨∑ᵢ gᵢ, û⟩ • û` is the projection
of the sum gradient on the direction `û`. -/
theorem config_length (J : Matrix ι κ ℝ) (uhat : κ → ℝ) :
    (∑ i, (J *ᵥ uhat) i) • uhat = (((fun _ => (1 : ℝ)) ᵥ* J) ⬝ᵥ uhat) • uhat := by
  rw [← Matrix.dotProduct_mulVec]
  congr 1
  simp [dotProduct]

/-! ### (J) Aligned-MTL -/

/-- (J, C17) Aligned-MTL, general (possibly rank-deficient) form: if `J Jᵀ = V diag(λ) Vᵀ` with
`Vᵀ V = 1` (`V : m × r`, the kept eigenvectors) and all kept `λᵢ > 0`, then with
`B = √lmin • V diag(1/√λ) Vᵀ` the balanced matrix `R = B J` has Gramian `lmin • V Vᵀ`. -/
theorem amtl_gram {ρ : Type*} [Fintype ρ] [DecidableEq ρ] (J : Matrix ι κ ℝ)
    (V : Matrix ι ρ ℝ) (lam : ρ → ℝ) (hV : Vᵀ * V = 1) (hlam : ∀ i, 0 < lam i)
    (hM : J * Jᵀ = V * Matrix.diagonal lam * Vᵀ) (lmin : ℝ) (hl : 0 ≤ lmin) :
    let B := Real.sqrt lmin • (V * Matrix.diagonal (fun i => 1 / Real.sqrt (lam i)) * Vᵀ)
    (B * J) * (B * J)ᵀ = lmin • (V * Vᵀ) := by
  intro B
  set D := Matrix.diagonal (fun i => 1 / Real.sqrt (lam i)) with hD
  have hV' : ∀ X : Matrix ρ ι ℝ, Vᵀ * (V * X) = X := by
    intro X
    rw [← Matrix.mul_assoc, hV, Matrix.one_mul]
  have hDD : D * (Matrix.diagonal lam * D) = 1 := by
    rw [hD, Matrix.diagonal_mul_diagonal, Matrix.diagonal_mul_diagonal, ← Matrix.diagonal_one]
    congr 1
    ext i
    obtain ⟨s, hs, hs0, hsq⟩ : ∃ s : ℝ, Real.sqrt (lam i) = s ∧ s ≠ 0 ∧ s * s = lam i :=
      ⟨_, rfl, (Real.sqrt_pos.mpr (hlam i)).ne', Real.mul_self_sqrt (hlam i).le⟩
    rw [hs, ← hsq]
    field_simp
  have hBt : Bᵀ = B := by
    simp only [B, Matrix.transpose_smul, Matrix.transpose_mul, Matrix.transpose_transpose,
      Matrix.diagonal_transpose, Matrix.mul_assoc]
  calc (B * J) * (B * J)ᵀ = B * (J * Jᵀ) * Bᵀ := by
        rw [Matrix.transpose_mul]; simp only [Matrix.mul_assoc]
    _ = B * (V * Matrix.diagonal lam * Vᵀ) * B := by rw [hM, hBt]
    _ = (Real.sqrt lmin * Real.sqrt lmin) • (V * (D * (Matrix.diagonal lam * D)) * Vᵀ) := by
        simp only [B, hD, Matrix.smul_mul, Matrix.mul_smul, smul_smul, Matrix.mul_assoc, hV']
    _ = lmin • (V * Vᵀ) := by
        rw [hDD, Matrix.mul_one, Real.mul_self_sqrt hl]

/-- (J, C17) Aligned-MTL, full-rank case: `V` orthogonal (`Vᵀ V = 1 = V Vᵀ`), all `λᵢ > 0`:
the balanced matrix `R = B J` satisfies `R Rᵀ = λ_min • 1` — its rows are mutually orthogonal and
all have the same norm `√λ_min`. -/
theorem amtl_orthogonal [DecidableEq ι] (J : Matrix ι κ ℝ)
    (V : Matrix ι ι ℝ) (lam : ι → ℝ) (hV : Vᵀ * V = 1) (hV2 : V * Vᵀ = 1)
    (hlam : ∀ i, 0 < lam i)
    (hM : J * Jᵀ = V * Matrix.diagonal lam * Vᵀ) (lmin : ℝ) (hl : 0 ≤ lmin) :
    let B := Real.sqrt lmin • (V * Matrix.diagonal (fun i => 1 / Real.sqrt (lam i)) * Vᵀ)
    (B * J) * (B * J)ᵀ = lmin • (1 : Matrix ι ι ℝ) := by
  intro B
  have := amtl_gram J V lam hV hlam hM lmin hl
  simp only at this
  rw [this, hV2]

omit [Fintype κ] in
/-- (J, C17) The weights returned by Aligned-MTL are `α = B w`; since `B` is symmetric the
aggregation `Jᵀ α` equals `Rᵀ w` with `R = B J` the balanced matrix. -/
theorem amtl_output (J : Matrix ι κ ℝ) (B : Matrix ι ι ℝ) (hB : Bᵀ = B) (w : ι → ℝ) :
    (B *ᵥ w) ᵥ* J = w ᵥ* (B * J) := by
  rw [← Matrix.vecMul_vecMul, ← Matrix.vecMul_transpose, hB]

end TorchJDSpec
