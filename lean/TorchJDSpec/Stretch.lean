import TorchJDSpec.Definitions

/-!
  Stretch lemmas: scaling identities of the QP (C09, `reg_eps = 0`), the QP solution as the
  dual-cone projection (C03, Prop. 1 of the Jacobian-descent paper), Frank–Wolfe rate (C04).
-/

namespace TorchJDSpec
open Matrix

variable {ι κ : Type*} [Fintype ι] [Fintype κ]

/-! ### qpmin_scaling (C09) -/

/-- Scaling the Gramian by a positive constant does not change the minimisers
(e.g. the normalisation by `σ_max²`). -/
theorem qpmin_gram_scaling (G : Matrix ι ι ℝ) (u w : ι → ℝ) (k : ℝ) (hk : 0 < k) :
    IsQPMin (k • G) u w ↔ IsQPMin G u w := by
  unfold IsQPMin
  refine and_congr_right fun _ => forall_congr' fun v => imp_congr_right fun _ => ?_
  simp only [Matrix.smul_mulVec, dotProduct_smul, smul_eq_mul]
  exact mul_le_mul_iff_right₀ hk

/-- The QP is positively homogeneous in `u`. -/
theorem qpmin_pos_homogeneous (G : Matrix ι ι ℝ) (u w : ι → ℝ) (t : ℝ) (ht : 0 < t) :
    IsQPMin G (t • u) (t • w) ↔ IsQPMin G u w := by
  have hq : ∀ v : ι → ℝ, (t • v) ⬝ᵥ (G *ᵥ (t • v)) = t * t * (v ⬝ᵥ (G *ᵥ v)) := by
    intro v
    rw [Matrix.mulVec_smul, smul_dotProduct, dotProduct_smul, smul_eq_mul, smul_eq_mul, mul_assoc]
  have hfe : ∀ v : ι → ℝ, (∀ i, (t • u) i ≤ (t • v) i) ↔ ∀ i, u i ≤ v i := by
    intro v
    refine forall_congr' fun i => ?_
    simp only [Pi.smul_apply, smul_eq_mul]
    exact mul_le_mul_iff_right₀ ht
  have htt : 0 < t * t := mul_pos ht ht
  unfold IsQPMin
  rw [hfe]
  refine and_congr_right fun _ => ⟨fun h v hv => ?_, fun h v hv => ?_⟩
  · have := h (t • v) ((hfe v).mpr hv)
    rw [hq, hq] at this
    exact le_of_mul_le_mul_left this htt
  · have e : v = t • (t⁻¹ • v) := by rw [smul_smul, mul_inv_cancel₀ ht.ne', one_smul]
    have hv' : ∀ i, u i ≤ (t⁻¹ • v) i := by
      rw [e] at hv
      exact (hfe _).mp hv
    have := h _ hv'
    rw [e, hq, hq]
    exact mul_le_mul_of_nonneg_left this htt.le

/-- (C09) Row scaling `J' = diag(c) J`, `c > 0`, i.e. `G' = diag(c) G diag(c)`:
`w'` solves the QP for `(G', u')` iff `c ∘ w'` solves it for `(G, c ∘ u')`. -/
theorem qpmin_row_scaling [DecidableEq ι] (G : Matrix ι ι ℝ) (c u w : ι → ℝ)
    (hc : ∀ i, 0 < c i) :
    IsQPMin (Matrix.diagonal c * G * Matrix.diagonal c) u w ↔ IsQPMin G (c * u) (c * w) := by
  have hq : ∀ v : ι → ℝ,
      v ⬝ᵥ ((Matrix.diagonal c * G * Matrix.diagonal c) *ᵥ v) = (c * v) ⬝ᵥ (G *ᵥ (c * v)) := by
    intro v
    have h1 : Matrix.diagonal c *ᵥ v = c * v := by
      ext i; simp [Matrix.mulVec_diagonal]
    have h2 : v ᵥ* Matrix.diagonal c = c * v := by
      ext i; simp [Matrix.vecMul_diagonal, mul_comm]
    rw [← Matrix.mulVec_mulVec, ← Matrix.mulVec_mulVec, h1, Matrix.dotProduct_mulVec, h2]
  have hfe : ∀ v : ι → ℝ, (∀ i, (c * u) i ≤ (c * v) i) ↔ ∀ i, u i ≤ v i := by
    intro v
    refine forall_congr' fun i => ?_
    simp only [Pi.mul_apply]
    exact mul_le_mul_iff_right₀ (hc i)
  unfold IsQPMin
  rw [hfe]
  refine and_congr_right fun _ => ⟨fun h v hv => ?_, fun h v hv => ?_⟩
  · have e : v = c * (c⁻¹ * v) := by
      ext i
      simp only [Pi.mul_apply, Pi.inv_apply]
      rw [← mul_assoc, mul_inv_cancel₀ (hc i).ne', one_mul]
    have hv' : ∀ i, u i ≤ (c⁻¹ * v) i := by
      rw [e] at hv
      exact (hfe _).mp hv
    have := h _ hv'
    rw [hq, hq, ← e] at this
    exact this
  · have := h (c * v) ((hfe v).mpr hv)
    rw [hq, hq]
    exact this

omit [Fintype κ] in
/-- (C09) Consequence for the aggregation: the output for `J' = diag(c) J` with weights `w'` is
the output for `J` with weights `c ∘ w'`. Combined with `qpmin_row_scaling`,
`qpmin_pos_homogeneous` and uniqueness this gives `UPGrad(diag(c) J) = ∑ᵢ cᵢ uᵢ π_J(gᵢ)`
when `reg_eps = 0`. -/
theorem row_scaling_output [DecidableEq ι] (c w : ι → ℝ) (J : Matrix ι κ ℝ) :
    w ᵥ* (Matrix.diagonal c * J) = (c * w) ᵥ* J := by
  rw [← Matrix.vecMul_vecMul]
  congr 1
  ext i
  simp [Matrix.vecMul_diagonal, mul_comm]

/-! ### qpmin_is_projection (C03) -/

/-- (C03, Prop. 1 of "Jacobian Descent for Multi-Objective Optimization") If `w` solves the QP for
`G = J Jᵀ` and `u`, then `x = Jᵀ w` is the Euclidean projection of `y = Jᵀ u` onto the dual cone
`{z | J z ≥ 0}` of the rows of `J`: it belongs to the cone and is at least as close to `y` as any
other point of the cone. -/
theorem qpmin_is_projection [DecidableEq ι] (J : Matrix ι κ ℝ) (u w : ι → ℝ)
    (h : IsQPMin (J * Jᵀ) u w) :
    (∀ i, 0 ≤ (J *ᵥ (w ᵥ* J)) i) ∧
      ∀ z : κ → ℝ, (∀ i, 0 ≤ (J *ᵥ z) i) →
        (w ᵥ* J - u ᵥ* J) ⬝ᵥ (w ᵥ* J - u ᵥ* J) ≤ (z - u ᵥ* J) ⬝ᵥ (z - u ᵥ* J) := by
  have hsymm : (J * Jᵀ).IsSymm := by
    rw [Matrix.IsSymm, Matrix.transpose_mul, Matrix.transpose_transpose]
  have hdual : ∀ i, 0 ≤ (J *ᵥ (w ᵥ* J)) i := fun i => by
    rw [← gram_mulVec]; exact qp_min_Gw_nonneg _ hsymm u w h i
  have hcs : ∀ i, (J *ᵥ (w ᵥ* J)) i * (w i - u i) = 0 := fun i => by
    rw [← gram_mulVec]; exact qp_min_compl_slack _ hsymm u w h i
  refine ⟨hdual, fun z hz => ?_⟩
  set x := w ᵥ* J with hx
  set y := u ᵥ* J with hy
  have hxy : x - y = (w - u) ᵥ* J := by rw [Matrix.sub_vecMul]
  -- ⟨z - x, x - y⟩ ≥ 0
  have hcross : 0 ≤ (z - x) ⬝ᵥ (x - y) := by
    rw [hxy, dotProduct_comm, ← Matrix.dotProduct_mulVec, Matrix.mulVec_sub, dotProduct_sub]
    have h1 : 0 ≤ (w - u) ⬝ᵥ (J *ᵥ z) :=
      Finset.sum_nonneg fun i _ => mul_nonneg (by simp only [Pi.sub_apply]; linarith [h.1 i]) (hz i)
    have h2 : (w - u) ⬝ᵥ (J *ᵥ x) = 0 := by
      refine Finset.sum_eq_zero fun i _ => ?_
      rw [mul_comm]; exact hcs i
    linarith
  have e : (z - y) ⬝ᵥ (z - y)
      = (z - x) ⬝ᵥ (z - x) + 2 * ((z - x) ⬝ᵥ (x - y)) + (x - y) ⬝ᵥ (x - y) := by
    have : z - y = (z - x) + (x - y) := by abel
    rw [this, add_dotProduct, dotProduct_add, dotProduct_add, dotProduct_comm (x - y) (z - x)]
    ring
  rw [e]
  have := dotProduct_self_nonneg' (z - x)
  linarith

/-! ### fw_rate (C04): O(1/k) rate of exact-line-search Frank–Wolfe on the simplex -/

/-- Scalar recurrence behind the Frank–Wolfe rate (Jaggi 2013, Thm 1):
`h₀ ≤ C` and `h_{k+1} ≤ (1-δ) h_k + (C/2) δ²` for all `δ ∈ [0,1]` imply `h_k ≤ 2C/(k+2)`. -/
theorem fw_rate_scalar (h : ℕ → ℝ) (C : ℝ) (hC : 0 ≤ C) (h0 : h 0 ≤ C)
    (hstep : ∀ k (δ : ℝ), 0 ≤ δ → δ ≤ 1 → h (k + 1) ≤ (1 - δ) * h k + C / 2 * δ ^ 2) :
    ∀ k : ℕ, h k ≤ 2 * C / ((k : ℝ) + 2) := by
  intro k
  induction k with
  | zero =>
    simp only [Nat.cast_zero, zero_add]
    linarith
  | succ k ih =>
    have hn : (0 : ℝ) < (k : ℝ) + 2 := by positivity
    set n : ℝ := (k : ℝ) + 2 with hndef
    have hδ0 : 0 ≤ 2 / n := by positivity
    have hδ1 : 2 / n ≤ 1 := by
      rw [div_le_one hn]
      have : (0 : ℝ) ≤ (k : ℝ) := Nat.cast_nonneg k
      linarith
    have h1 := hstep k (2 / n) hδ0 hδ1
    have h2 : (1 - 2 / n) * h k ≤ (1 - 2 / n) * (2 * C / n) :=
      mul_le_mul_of_nonneg_left ih (by linarith)
    have h3 : (1 - 2 / n) * (2 * C / n) + C / 2 * (2 / n) ^ 2 = 2 * C * (n - 1) / n ^ 2 := by
      field_simp
      ring
    have h4 : 2 * C * (n - 1) / n ^ 2 ≤ 2 * C / (n + 1) := by
      rw [div_le_div_iff₀ (by positivity) (by linarith)]
      nlinarith [mul_nonneg hC hn.le]
    have h5 : ((k + 1 : ℕ) : ℝ) + 2 = n + 1 := by
      push_cast
      rw [hndef]; ring
    rw [h5]
    linarith

/-- One iteration of `_frank_wolfe_solver` (weight space, `G = J Jᵀ`): pick `t ∈ argmin (G α)`,
move towards `e_t` with the exact line-search step `fwGamma`. -/
def IsFWStep [DecidableEq ι] (J : Matrix ι κ ℝ) (α α' : ι → ℝ) : Prop :=
  ∃ t : ι, (∀ i, ((J * Jᵀ) *ᵥ α) t ≤ ((J * Jᵀ) *ᵥ α) i) ∧
    α' = (1 - fwGamma (α ⬝ᵥ ((J * Jᵀ) *ᵥ (Pi.single t 1 : ι → ℝ))) (α ⬝ᵥ ((J * Jᵀ) *ᵥ α))
              ((Pi.single t 1 : ι → ℝ) ⬝ᵥ ((J * Jᵀ) *ᵥ (Pi.single t 1 : ι → ℝ)))) • α
        + fwGamma (α ⬝ᵥ ((J * Jᵀ) *ᵥ (Pi.single t 1 : ι → ℝ))) (α ⬝ᵥ ((J * Jᵀ) *ᵥ α))
              ((Pi.single t 1 : ι → ℝ) ⬝ᵥ ((J * Jᵀ) *ᵥ (Pi.single t 1 : ι → ℝ)))
            • (Pi.single t 1 : ι → ℝ)

omit [Fintype ι] in
/-- Entries of the Gramian are bounded by `s²` when all rows have norm `≤ s`. -/
theorem gram_entry_abs_le (J : Matrix ι κ ℝ) (s : ℝ) (hrow : ∀ i, l2norm (J i) ≤ s) (i j : ι) :
    |(J * Jᵀ) i j| ≤ s * s := by
  have e : (J * Jᵀ) i j = J i ⬝ᵥ J j := by
    simp [Matrix.mul_apply, dotProduct]
  rw [e]
  exact le_trans (abs_dotProduct_le _ _)
    (mul_le_mul (hrow i) (hrow j) (l2norm_nonneg _) (le_trans (l2norm_nonneg _) (hrow i)))

/-- A convex combination of numbers bounded by `M` in absolute value is bounded by `M`. -/
theorem simplex_dot_abs_le (β v : ι → ℝ) (hβ : IsSimplex β) (M : ℝ) (hv : ∀ i, |v i| ≤ M) :
    |β ⬝ᵥ v| ≤ M := by
  unfold dotProduct
  calc |∑ i, β i * v i| ≤ ∑ i, |β i * v i| := Finset.abs_sum_le_sum_abs _ _
    _ = ∑ i, β i * |v i| := by
        refine Finset.sum_congr rfl fun i _ => ?_
        rw [abs_mul, abs_of_nonneg (hβ.1 i)]
    _ ≤ ∑ i, β i * M := Finset.sum_le_sum fun i _ => mul_le_mul_of_nonneg_left (hv i) (hβ.1 i)
    _ = M := by rw [← Finset.sum_mul, hβ.2, one_mul]

/-- A convex combination is at least the minimum. -/
theorem simplex_dot_ge (β v : ι → ℝ) (hβ : IsSimplex β) (a : ℝ) (hv : ∀ i, a ≤ v i) :
    a ≤ β ⬝ᵥ v := by
  unfold dotProduct
  calc a = ∑ i, β i * a := by rw [← Finset.sum_mul, hβ.2, one_mul]
    _ ≤ ∑ i, β i * v i := Finset.sum_le_sum fun i _ => mul_le_mul_of_nonneg_left (hv i) (hβ.1 i)

/-- On the simplex, `|βᵀ G α| ≤ s²`. -/
theorem gram_bilin_simplex_abs_le (J : Matrix ι κ ℝ) (s : ℝ) (hrow : ∀ i, l2norm (J i) ≤ s)
    (α β : ι → ℝ) (hα : IsSimplex α) (hβ : IsSimplex β) :
    |β ⬝ᵥ ((J * Jᵀ) *ᵥ α)| ≤ s * s := by
  refine simplex_dot_abs_le β _ hβ _ fun i => ?_
  have : ((J * Jᵀ) *ᵥ α) i = α ⬝ᵥ (fun j => (J * Jᵀ) i j) := by
    simp only [mulVec, dotProduct]
    exact Finset.sum_congr rfl fun j _ => mul_comm _ _
  rw [this]
  exact simplex_dot_abs_le α _ hα _ fun j => gram_entry_abs_le J s hrow i j

/-- Per-step recurrence of Frank–Wolfe with exact line search, for
`h(α) = ½‖Jᵀα‖² - ½‖Jᵀβ‖²` (`β` any point of the simplex, in particular the optimum):
`h(α') ≤ (1-δ) h(α) + 2 s² δ²` for every `δ ∈ [0,1]`. -/
theorem fw_step_recurrence [DecidableEq ι] (J : Matrix ι κ ℝ) (s : ℝ)
    (hrow : ∀ i, l2norm (J i) ≤ s) (α α' β : ι → ℝ) (hα : IsSimplex α) (hβ : IsSimplex β)
    (hstep : IsFWStep J α α') (δ : ℝ) (h0 : 0 ≤ δ) (h1 : δ ≤ 1) :
    (1 / 2) * (α' ⬝ᵥ ((J * Jᵀ) *ᵥ α')) - (1 / 2) * (β ⬝ᵥ ((J * Jᵀ) *ᵥ β))
      ≤ (1 - δ) * ((1 / 2) * (α ⬝ᵥ ((J * Jᵀ) *ᵥ α)) - (1 / 2) * (β ⬝ᵥ ((J * Jᵀ) *ᵥ β)))
        + (4 * (s * s)) / 2 * δ ^ 2 := by
  obtain ⟨t, ht, rfl⟩ := hstep
  set G := J * Jᵀ with hGdef
  have hG : G.IsSymm := by
    rw [hGdef, Matrix.IsSymm, Matrix.transpose_mul, Matrix.transpose_transpose]
  set e : ι → ℝ := Pi.single t 1 with he
  have hesimp : IsSimplex e := simplex_single t
  set a := α ⬝ᵥ (G *ᵥ e) with ha
  set b := α ⬝ᵥ (G *ᵥ α) with hb
  set c := e ⬝ᵥ (G *ᵥ e) with hc
  -- a = (G α) t
  have ha' : a = (G *ᵥ α) t := by
    rw [ha, dotProduct_mulVec_symm G hG α e, he, single_one_dotProduct]
  -- curvature: q = b + c - 2a ∈ [0, 4 s²]
  have hq0 : 0 ≤ b + c - 2 * a := by
    have h := gram_quad_nonneg J (α - e)
    have e' : (α - e) ⬝ᵥ (G *ᵥ (α - e)) = b + c - 2 * a := by
      simp only [Matrix.mulVec_sub, sub_dotProduct, dotProduct_sub, ha, hb, hc]
      rw [dotProduct_mulVec_symm G hG e α]
      ring
    rw [← e']; exact h
  have hbb := abs_le.mp (gram_bilin_simplex_abs_le J s hrow α α hα hα)
  have hcc := abs_le.mp (gram_bilin_simplex_abs_le J s hrow e e hesimp hesimp)
  have haa := abs_le.mp (gram_bilin_simplex_abs_le J s hrow e α hesimp hα)
  have hq4 : b + c - 2 * a ≤ 4 * (s * s) := by
    have : a = α ⬝ᵥ (G *ᵥ e) := ha
    linarith [hbb.2, hcc.2, haa.1]
  -- gap: b - a ≥ h
  have hgap : (1 / 2) * b - (1 / 2) * (β ⬝ᵥ (G *ᵥ β)) ≤ b - a := by
    -- convexity: Q(β) ≥ Q(α) + 2 (β - α)·Gα
    have hβα : β = α + (β - α) := by abel
    have hconv : b + 2 * ((β - α) ⬝ᵥ (G *ᵥ α)) ≤ β ⬝ᵥ (G *ᵥ β) := by
      have := quad_add G hG α (β - α)
      rw [← hβα] at this
      rw [this]
      have := gram_quad_nonneg J (β - α)
      linarith
    have hmin : a ≤ β ⬝ᵥ (G *ᵥ α) := by
      rw [ha']
      exact simplex_dot_ge β _ hβ _ ht
    rw [sub_dotProduct] at hconv
    linarith
  -- exact line search
  have hls := fwGamma_optimal a b c hq0 δ h0 h1
  rw [quad_segment G hG α e]
  have hphi : fwPhi a b c δ = b - 2 * δ * (b - a) + δ ^ 2 * (b + c - 2 * a) := by
    unfold fwPhi; ring
  rw [hphi] at hls
  have hδ2 : 0 ≤ δ ^ 2 := sq_nonneg δ
  nlinarith [mul_le_mul_of_nonneg_left hq4 hδ2, mul_le_mul_of_nonneg_left hgap h0]

/-- The Frank–Wolfe update stays on the simplex. -/
theorem fw_step_simplex [DecidableEq ι] (J : Matrix ι κ ℝ) (α α' : ι → ℝ) (hα : IsSimplex α)
    (hstep : IsFWStep J α α') : IsSimplex α' := by
  obtain ⟨t, -, rfl⟩ := hstep
  obtain ⟨h0, h1⟩ := fwGamma_mem_Icc
    (α ⬝ᵥ ((J * Jᵀ) *ᵥ (Pi.single t 1 : ι → ℝ))) (α ⬝ᵥ ((J * Jᵀ) *ᵥ α))
    ((Pi.single t 1 : ι → ℝ) ⬝ᵥ ((J * Jᵀ) *ᵥ (Pi.single t 1 : ι → ℝ)))
  exact simplex_segment α _ hα (simplex_single t) _ h0 h1

/-- (C04, stretch) `fw_rate`: MGDA's Frank–Wolfe iterates `α₀, α₁, …` (exact line search, started
anywhere on the simplex) satisfy `½‖Jᵀα_k‖² - ½‖Jᵀβ‖² ≤ 8 s² / (k+2)` for every point `β` of the
simplex (in particular the min-norm point), where `s` bounds the row norms. -/
theorem fw_rate [DecidableEq ι] (J : Matrix ι κ ℝ) (s : ℝ) (hrow : ∀ i, l2norm (J i) ≤ s)
    (α : ℕ → ι → ℝ) (hα0 : IsSimplex (α 0)) (hstep : ∀ k, IsFWStep J (α k) (α (k + 1)))
    (β : ι → ℝ) (hβ : IsSimplex β) (k : ℕ) :
    (1 / 2) * ((α k ᵥ* J) ⬝ᵥ (α k ᵥ* J)) - (1 / 2) * ((β ᵥ* J) ⬝ᵥ (β ᵥ* J))
      ≤ 8 * s ^ 2 / ((k : ℝ) + 2) := by
  have hsimp : ∀ k, IsSimplex (α k) := by
    intro k
    induction k with
    | zero => exact hα0
    | succ k ih => exact fw_step_simplex J _ _ ih (hstep k)
  rw [vecMul_dotProduct_self, vecMul_dotProduct_self]
  have hC : 0 ≤ 4 * (s * s) := by nlinarith [mul_self_nonneg s]
  have h0 : (1 / 2) * (α 0 ⬝ᵥ ((J * Jᵀ) *ᵥ α 0)) - (1 / 2) * (β ⬝ᵥ ((J * Jᵀ) *ᵥ β))
      ≤ 4 * (s * s) := by
    have h1 := (abs_le.mp (gram_bilin_simplex_abs_le J s hrow (α 0) (α 0) hα0 hα0)).2
    have h2 := gram_quad_nonneg J β
    nlinarith [mul_self_nonneg s]
  have := fw_rate_scalar
    (fun k => (1 / 2) * (α k ⬝ᵥ ((J * Jᵀ) *ᵥ α k)) - (1 / 2) * (β ⬝ᵥ ((J * Jᵀ) *ᵥ β)))
    (4 * (s * s)) hC h0
    (fun k δ hδ0 hδ1 =>
      fw_step_recurrence J s hrow (α k) (α (k + 1)) β (hsimp k) hβ (hstep k) δ hδ0 hδ1) k
  have e : 2 * (4 * (s * s)) / ((k : ℝ) + 2) = 8 * s ^ 2 / ((k : ℝ) + 2) := by ring
  rw [← e]
  exact this

/-! ### cagrad_dual (C04): CAGrad with `c ≥ 1` does not conflict at the exact optimum -/

/-- First-order upper bound for the Euclidean norm: for `a ≠ 0`,
`‖a + t b‖ ≤ ‖a‖ + (2 t ⟨a,b⟩ + t² ‖b‖²) / (2 ‖a‖)`. -/
theorem l2norm_add_smul_le (a b : κ → ℝ) (ha : l2norm a ≠ 0) (t : ℝ) :
    l2norm (a + t • b) ≤ l2norm a + (2 * t * (a ⬝ᵥ b) + t ^ 2 * (b ⬝ᵥ b)) / (2 * l2norm a) := by
  have hpos : 0 < l2norm a := lt_of_le_of_ne (l2norm_nonneg _) (Ne.symm ha)
  have hA : l2norm a ^ 2 = a ⬝ᵥ a := l2norm_sq a
  set N := l2norm a with hN
  set x := 2 * t * (a ⬝ᵥ b) + t ^ 2 * (b ⬝ᵥ b) with hx
  have hexp : (a + t • b) ⬝ᵥ (a + t • b) = N ^ 2 + x := by
    rw [hA, hx]
    simp only [add_dotProduct, dotProduct_add, smul_dotProduct, dotProduct_smul, smul_eq_mul]
    rw [dotProduct_comm b a]
    ring
  have hnn : 0 ≤ N ^ 2 + x := hexp ▸ dotProduct_self_nonneg' _
  unfold l2norm
  rw [hexp]
  have hrhs : 0 ≤ N + x / (2 * N) := by
    have : N + x / (2 * N) = (N ^ 2 + (N ^ 2 + x)) / (2 * N) := by field_simp; ring
    rw [this]
    exact div_nonneg (by positivity) (by positivity)
  rw [Real.sqrt_le_left hrhs]
  have : (N + x / (2 * N)) ^ 2 = N ^ 2 + x + (x / (2 * N)) ^ 2 := by field_simp; ring
  rw [this]
  have := sq_nonneg (x / (2 * N))
  linarith

/-- (C04, stretch) `cagrad_dual`: let `w` minimise CAGrad's dual objective
`F(v) = ⟨g_v, g₀⟩ + r ‖g_v‖` over the simplex (`g_v = Jᵀ v`, `r = c ‖g₀‖ = √φ`) with `g_w ≠ 0`,
and `d = g₀ + (r / ‖g_w‖) g_w` the CAGrad direction.  Then every row satisfies
`⟨gᵢ, d⟩ ≥ ⟨g_w, d⟩ = F(w)`, and `F(w) ≥ 0` as soon as `c ≥ 1`: no conflict. -/
theorem cagrad_dual [DecidableEq ι] (J : Matrix ι κ ℝ) (g0 : κ → ℝ) (c : ℝ) (hc : 1 ≤ c)
    (w : ι → ℝ) (hw : IsSimplex w) (hgw : l2norm (w ᵥ* J) ≠ 0)
    (hopt : ∀ v : ι → ℝ, IsSimplex v →
      (w ᵥ* J) ⬝ᵥ g0 + c * l2norm g0 * l2norm (w ᵥ* J)
        ≤ (v ᵥ* J) ⬝ᵥ g0 + c * l2norm g0 * l2norm (v ᵥ* J))
    (i : ι) :
    0 ≤ (J *ᵥ (g0 + (c * l2norm g0 / l2norm (w ᵥ* J)) • (w ᵥ* J))) i := by
  set gw := w ᵥ* J with hgwdef
  set r := c * l2norm g0 with hr
  have hr0 : 0 ≤ r := mul_nonneg (by linarith) (l2norm_nonneg _)
  set N := l2norm gw with hN
  have hNpos : 0 < N := lt_of_le_of_ne (l2norm_nonneg _) (Ne.symm hgw)
  set d := g0 + (r / N) • gw with hd
  have hrow : (Pi.single i (1 : ℝ) : ι → ℝ) ᵥ* J = J i := Matrix.single_one_vecMul i J
  set Δ := J i - gw with hΔ
  -- (a) ⟨g_w, d⟩ = F(w) ≥ 0
  have hFw : gw ⬝ᵥ d = gw ⬝ᵥ g0 + r * N := by
    rw [hd, dotProduct_add, dotProduct_smul, smul_eq_mul, ← l2norm_sq gw, ← hN]
    field_simp
  have hFnn : 0 ≤ gw ⬝ᵥ g0 + r * N := by
    have h1 := abs_dotProduct_le gw g0
    have h2 := neg_abs_le (gw ⬝ᵥ g0)
    have h3 : (c - 1) * (l2norm g0 * N) ≥ 0 :=
      mul_nonneg (by linarith) (mul_nonneg (l2norm_nonneg _) hNpos.le)
    rw [hr]
    rw [← hN] at h1
    nlinarith
  -- (b) first-order optimality along the segment towards eᵢ: ⟨Δ, d⟩ ≥ 0
  set K := r * (Δ ⬝ᵥ Δ) / (2 * N) with hK
  have hK0 : 0 ≤ K := div_nonneg (mul_nonneg hr0 (dotProduct_self_nonneg' _)) (by positivity)
  have key : ∀ t : ℝ, 0 < t → t ≤ 1 → 0 ≤ Δ ⬝ᵥ d + t * K := by
    intro t ht0 ht1
    have hs := hopt _ (simplex_segment w _ hw (simplex_single i) t ht0.le ht1)
    rw [Matrix.add_vecMul, Matrix.smul_vecMul, Matrix.smul_vecMul, hrow, ← hgwdef] at hs
    have hseg : (1 - t) • gw + t • J i = gw + t • Δ := by
      rw [hΔ]; ext k; simp only [Pi.add_apply, Pi.smul_apply, Pi.sub_apply, smul_eq_mul]; ring
    rw [hseg] at hs
    have hnorm := l2norm_add_smul_le gw Δ hgw t
    rw [← hN] at hnorm
    have hmul := mul_le_mul_of_nonneg_left hnorm hr0
    have e1 : (gw + t • Δ) ⬝ᵥ g0 = gw ⬝ᵥ g0 + t * (Δ ⬝ᵥ g0) := by
      rw [add_dotProduct, smul_dotProduct, smul_eq_mul]
    have e2 : Δ ⬝ᵥ d = Δ ⬝ᵥ g0 + r / N * (gw ⬝ᵥ Δ) := by
      rw [hd, dotProduct_add, dotProduct_smul, smul_eq_mul, dotProduct_comm Δ gw]
    have e3 : r * (N + (2 * t * (gw ⬝ᵥ Δ) + t ^ 2 * (Δ ⬝ᵥ Δ)) / (2 * N))
        = r * N + t * (r / N * (gw ⬝ᵥ Δ)) + t * (t * K) := by
      rw [hK]; field_simp; ring
    rw [e1] at hs
    rw [e3] at hmul
    rw [e2]
    have : 0 ≤ t * (Δ ⬝ᵥ g0 + r / N * (gw ⬝ᵥ Δ) + t * K) := by nlinarith
    exact (mul_nonneg_iff_of_pos_left ht0).mp this
  have hΔd : 0 ≤ Δ ⬝ᵥ d := by
    by_contra hneg
    replace hneg := not_le.mp hneg
    rcases hK0.eq_or_lt with hK' | hK'
    · have := key 1 one_pos le_rfl
      rw [← hK'] at this
      linarith
    · set t := min 1 (-(Δ ⬝ᵥ d) / (2 * K)) with ht
      have htpos : 0 < t := lt_min one_pos (div_pos (by linarith) (by positivity))
      have ht1 : t ≤ 1 := min_le_left _ _
      have ht2 : t * (2 * K) ≤ -(Δ ⬝ᵥ d) := (le_div_iff₀ (by positivity)).mp (min_le_right _ _)
      have := key t htpos ht1
      linarith
  -- conclude
  have hfin : (J *ᵥ d) i = gw ⬝ᵥ d + Δ ⬝ᵥ d := by
    rw [← add_dotProduct, hΔ, add_sub_cancel]
    rfl
  rw [hfin, hFw]
  linarith

end TorchJDSpec
