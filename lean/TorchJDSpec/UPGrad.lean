import TorchJDSpec.QP

/-!
  UPGrad / DualProj: regularised normalised Gramian, SVD route (C03), and the exact allowance in
  the non-conflict inequality caused by the regularisation (C04).
-/

namespace TorchJDSpec
open Matrix

variable {ι κ : Type*} [Fintype ι] [Fintype κ]

/-- `(J Jᵀ) w = J (Jᵀ w)`; `(J (Jᵀ w)) i` is the inner product of row `i` with the aggregation. -/
theorem gram_mulVec (J : Matrix ι κ ℝ) (w : ι → ℝ) : (J * Jᵀ) *ᵥ w = J *ᵥ (w ᵥ* J) := by
  rw [← Matrix.mulVec_mulVec, Matrix.mulVec_transpose]

omit [Fintype ι] in
/-- `(J *ᵥ x) i` is the inner product of row `i` of `J` with `x`. -/
theorem mulVec_apply_row (J : Matrix ι κ ℝ) (x : κ → ℝ) (i : ι) : (J *ᵥ x) i = J i ⬝ᵥ x :=
  rfl

omit [Fintype ι] in
/-- The regularised normalised Gramian is symmetric. -/
theorem regGram_isSymm [DecidableEq ι] (J : Matrix ι κ ℝ) (c reg : ℝ) :
    (c • (J * Jᵀ) + reg • (1 : Matrix ι ι ℝ)).IsSymm := by
  rw [Matrix.IsSymm, Matrix.transpose_add, Matrix.transpose_smul, Matrix.transpose_smul,
    Matrix.transpose_mul, Matrix.transpose_transpose, Matrix.transpose_one]

/-- Quadratic form of a Gramian is a square norm, hence non-negative. -/
theorem gram_quad_nonneg (J : Matrix ι κ ℝ) (d : ι → ℝ) : 0 ≤ d ⬝ᵥ ((J * Jᵀ) *ᵥ d) := by
  rw [gram_mulVec, Matrix.dotProduct_mulVec]
  exact Finset.sum_nonneg fun k _ => mul_self_nonneg _

/-- The regularised normalised Gramian is positive definite for `reg > 0`, `c ≥ 0`. -/
theorem regGram_posDef [DecidableEq ι] (J : Matrix ι κ ℝ) (c reg : ℝ) (hc : 0 ≤ c)
    (hreg : 0 < reg) (d : ι → ℝ) (hd : d ≠ 0) :
    0 < d ⬝ᵥ ((c • (J * Jᵀ) + reg • (1 : Matrix ι ι ℝ)) *ᵥ d) := by
  rw [Matrix.add_mulVec, dotProduct_add, Matrix.smul_mulVec, Matrix.smul_mulVec,
    Matrix.one_mulVec, dotProduct_smul, dotProduct_smul, smul_eq_mul, smul_eq_mul]
  have h1 : 0 ≤ c * (d ⬝ᵥ ((J * Jᵀ) *ᵥ d)) := mul_nonneg hc (gram_quad_nonneg J d)
  have h2 : 0 < reg * (d ⬝ᵥ d) := by
    refine mul_pos hreg ?_
    obtain ⟨i, hi⟩ := Function.ne_iff.mp hd
    exact Finset.sum_pos' (fun i _ => mul_self_nonneg _) ⟨i, Finset.mem_univ _, mul_self_pos.mpr hi⟩
  linarith

/-- (D, C04) Allowance of a single projected weight vector: with the regularised normalised
Gramian `G = (1/s²) J Jᵀ + reg I`, dual feasibility `G w ≥ 0` gives
`⟨gᵢ, Jᵀ w⟩ ≥ -reg s² wᵢ`. -/
theorem upgrad_allowance [DecidableEq ι] (J : Matrix ι κ ℝ) (s reg : ℝ) (hs : 0 < s)
    (w : ι → ℝ) (i : ι)
    (h : 0 ≤ (((1 / s ^ 2) • (J * Jᵀ) + reg • (1 : Matrix ι ι ℝ)) *ᵥ w) i) :
    -(reg * s ^ 2 * w i) ≤ (J *ᵥ (w ᵥ* J)) i := by
  rw [Matrix.add_mulVec, Matrix.smul_mulVec, Matrix.smul_mulVec, Matrix.one_mulVec,
    gram_mulVec] at h
  simp only [Pi.add_apply, Pi.smul_apply, smul_eq_mul] at h
  have hs2 : 0 < s ^ 2 := pow_pos hs 2
  have := mul_nonneg hs2.le h
  have e : s ^ 2 * (1 / s ^ 2 * (J *ᵥ (w ᵥ* J)) i + reg * w i)
      = (J *ᵥ (w ᵥ* J)) i + reg * s ^ 2 * w i := by
    field_simp
  rw [e] at this
  linarith

/-- (D, C04) DualProj: the solver output `w` (a minimiser of the QP with the regularised
normalised Gramian) satisfies the non-conflict inequality up to the allowance `reg s² wᵢ`. -/
theorem dualproj_allowance [DecidableEq ι] (J : Matrix ι κ ℝ) (s reg : ℝ) (hs : 0 < s)
    (u w : ι → ℝ)
    (h : IsQPMin ((1 / s ^ 2) • (J * Jᵀ) + reg • (1 : Matrix ι ι ℝ)) u w) (i : ι) :
    -(reg * s ^ 2 * w i) ≤ (J *ᵥ (w ᵥ* J)) i :=
  upgrad_allowance J s reg hs w i
    (qp_min_Gw_nonneg _ (regGram_isSymm J _ reg) u w h i)

/-- (D, C04) UPGrad: the final weights are `W = ∑ₖ w⁽ᵏ⁾` where each `w⁽ᵏ⁾` solves the QP for
`u⁽ᵏ⁾` (row `k` of `diag(weights)`); the aggregation `Jᵀ W` satisfies the non-conflict inequality
up to the allowance `reg s² Wᵢ`. -/
theorem upgrad_sum_allowance [DecidableEq ι] {K : Type*} [Fintype K] (J : Matrix ι κ ℝ)
    (s reg : ℝ) (hs : 0 < s) (U W : K → ι → ℝ)
    (h : ∀ k, IsQPMin ((1 / s ^ 2) • (J * Jᵀ) + reg • (1 : Matrix ι ι ℝ)) (U k) (W k)) (i : ι) :
    -(reg * s ^ 2 * (∑ k, W k) i) ≤ (J *ᵥ ((∑ k, W k) ᵥ* J)) i := by
  refine upgrad_allowance J s reg hs _ i ?_
  rw [Matrix.mulVec_sum, Finset.sum_apply]
  exact Finset.sum_nonneg fun k _ =>
    qp_min_Gw_nonneg _ (regGram_isSymm J _ reg) (U k) (W k) (h k) i

/-- (D, C04) With `reg = 0` (exact dual-cone projection) there is no allowance:
the aggregation has non-negative inner product with every row. -/
theorem upgrad_exact_nonconflict [DecidableEq ι] {K : Type*} [Fintype K] (J : Matrix ι κ ℝ)
    (U W : K → ι → ℝ) (h : ∀ k, IsQPMin (J * Jᵀ) (U k) (W k)) (i : ι) :
    0 ≤ (J *ᵥ ((∑ k, W k) ᵥ* J)) i := by
  have hsymm : (J * Jᵀ).IsSymm := by
    rw [Matrix.IsSymm, Matrix.transpose_mul, Matrix.transpose_transpose]
  rw [← gram_mulVec, Matrix.mulVec_sum, Finset.sum_apply]
  exact Finset.sum_nonneg fun k _ => qp_min_Gw_nonneg _ hsymm (U k) (W k) (h k) i

omit [Fintype ι] in
/-- (F, C03) The SVD route of `_compute_normalized_gramian` computes `(1/σ²) J Jᵀ`:
if `J = U diag(S) Vᵀ` with `Vᵀ V = 1`, then `U diag((S/σ)²) Uᵀ = (1/σ²) J Jᵀ`. -/
theorem svd_gram {ρ : Type*} [Fintype ρ] [DecidableEq ρ] (U : Matrix ι ρ ℝ) (S : ρ → ℝ)
    (V : Matrix κ ρ ℝ) (hV : Vᵀ * V = 1) (J : Matrix ι κ ℝ)
    (hJ : J = U * Matrix.diagonal S * Vᵀ) (σ : ℝ) (hσ : σ ≠ 0) :
    U * Matrix.diagonal (fun i => (S i / σ) ^ 2) * Uᵀ = (1 / σ ^ 2) • (J * Jᵀ) := by
  have hJJ : J * Jᵀ = U * Matrix.diagonal (fun i => S i ^ 2) * Uᵀ := by
    rw [hJ, Matrix.transpose_mul, Matrix.transpose_mul, Matrix.transpose_transpose,
      Matrix.diagonal_transpose]
    calc U * diagonal S * Vᵀ * (V * (diagonal S * Uᵀ))
        = U * diagonal S * (Vᵀ * V) * (diagonal S * Uᵀ) := by simp only [Matrix.mul_assoc]
      _ = U * (diagonal S * diagonal S) * Uᵀ := by
          rw [hV, Matrix.mul_one]; simp only [Matrix.mul_assoc]
      _ = U * diagonal (fun i => S i ^ 2) * Uᵀ := by
          rw [Matrix.diagonal_mul_diagonal]; congr 3; ext i; ring
  rw [hJJ]
  have hd : Matrix.diagonal (fun i => (S i / σ) ^ 2)
      = (1 / σ ^ 2) • Matrix.diagonal (fun i => S i ^ 2) := by
    rw [← Matrix.diagonal_smul]
    congr 1
    ext i
    simp only [Pi.smul_apply, smul_eq_mul]
    field_simp
  rw [hd, Matrix.mul_smul, Matrix.smul_mul]

omit [Fintype ι] in
/-- (F, C03) Small-σ branch of `_compute_normalized_gramian`: scaled singular values are all
zero, so the "normalised Gramian" is `0` and the regularised one is `reg • 1`. -/
theorem svd_gram_zero {ρ : Type*} [Fintype ρ] [DecidableEq ρ] [DecidableEq ι]
    (U : Matrix ι ρ ℝ) (reg : ℝ) :
    U * (Matrix.diagonal (fun _ : ρ => (0 : ℝ) ^ 2) : Matrix ρ ρ ℝ) * Uᵀ + reg • (1 : Matrix ι ι ℝ)
      = reg • (1 : Matrix ι ι ℝ) := by
  have : Matrix.diagonal (fun _ : ρ => (0 : ℝ) ^ 2) = 0 := by
    ext i j; simp [Matrix.diagonal_apply]
  rw [this]; simp

end TorchJDSpec
