#!/usr/bin/env bash
# Build the TorchJDSpec bridge-lemma library.
#   exit 0  iff  every file compiles without error AND no `sorry` / `axiom` / `native_decide`
#                is used anywhere in the library AND theorems.json matches the sources.
# Incremental: `lake build` only recompiles files whose sources (or imports) changed.
# Mathlib is NOT fetched: it is pre-installed inside the Lean sysroot, so `import Mathlib`
# resolves with the default search path (no `require` in lakefile.toml, works offline).
set -u
cd "$(dirname "$0")"

fail() { echo "build.sh: FAIL: $*" >&2; exit 1; }

command -v lake >/dev/null 2>&1 || fail "lake not on PATH"

# 1. Source-level scan (defence in depth; audit.sh is the authoritative axiom check).
#    Strip comments (block /- -/ incl. nested, and line --) before scanning.
python3 - <<'PY' || exit 1
import re, sys, glob
bad = []
def strip_comments(s):
    out = []; i = 0; depth = 0; n = len(s)
    while i < n:
        if s.startswith('/-', i):
            depth += 1; i += 2; continue
        if depth and s.startswith('-/', i):
            depth -= 1; i += 2; continue
        if depth:
            if s[i] == '\n': out.append('\n')
            i += 1; continue
        if s.startswith('--', i):
            while i < n and s[i] != '\n': i += 1
            continue
        out.append(s[i]); i += 1
    return ''.join(out)
files = sorted(glob.glob('TorchJDSpec/*.lean')) + ['TorchJDSpec.lean']
for f in files:
    code = strip_comments(open(f, encoding='utf-8').read())
    for ln, line in enumerate(code.split('\n'), 1):
        if re.search(r'(?<![\w.])(sorry|admit|native_decide|sorryAx)(?![\w])', line) \
           or re.search(r'^\s*(private\s+|protected\s+)?(axiom|opaque|unsafe)\b', line) \
           or re.search(r'implemented_by|extern|ofReduceBool|reduceBool|debug\.skipKernelTC', line):
            bad.append(f'{f}:{ln}: {line.strip()}')
if bad:
    print('build.sh: FAIL: forbidden construct(s) in library sources:', file=sys.stderr)
    print('\n'.join(bad), file=sys.stderr); sys.exit(1)
# every TorchJDSpec/*.lean must be imported by the root module
root = open('TorchJDSpec.lean', encoding='utf-8').read()
missing = [f for f in files[:-1] if f'import TorchJDSpec.{f[len("TorchJDSpec/"):-5]}' not in root]
if missing:
    print('build.sh: FAIL: not imported by TorchJDSpec.lean: ' + ', '.join(missing), file=sys.stderr)
    sys.exit(1)
PY

# 2. Compile (warnings of up-to-date modules are replayed by lake, so the scan below also
#    sees them on a no-op build).
LOG="$(mktemp)"; trap 'rm -f "$LOG"' EXIT
lake build TorchJDSpec 2>&1 | tee "$LOG" | grep -E '^(✖|error|Build completed|.*: error)' || true
status=${PIPESTATUS[0]}
[ "$status" -eq 0 ] || { grep -n -E 'error' "$LOG" | head -40 >&2; fail "lake build exited with $status"; }
if grep -q -E "declaration uses .?sorry" "$LOG"; then
  grep -n -B2 -E "declaration uses .?sorry" "$LOG" >&2
  fail "a declaration uses sorry"
fi

# 3. theorems.json must list exactly the theorems of the library, with their exact statements.
if [ -f theorems.json ]; then
  python3 tools/gen_theorems.py --check || fail "theorems.json is out of date (run: python3 tools/gen_theorems.py)"
else
  fail "theorems.json missing"
fi
echo "build.sh: OK"
