#!/usr/bin/env python3
"""Source of tools/theorems_meta.json (edit here, then run this script, then gen_theorems.py)."""
import json, os
HERE = os.path.dirname(os.path.abspath(__file__))
M = {}
def T(name, props, informal, hyp, kind="bridge"):
    assert name not in M, name
    M[name] = {"properties": props, "informal": informal, "hypotheses_from_contracts": hyp, "kind": kind}
def H(name, props, informal):
    T(name, props, informal, "none (pure algebra helper; no contract clause involved)", kind="helper")

PURE = "none (pure algebra; holds for every input)"

# ---------------- Linear.lean
T("vecMul_rows_of_linear", ["C05", "C01"],
  "A matrix whose r-th row is L(e_r) represents the linear map L: w ᵥ* rows = L w.",
  "L is the vector-Jacobian product of the autograd graph (linear in the cotangent: [T] clause of torch.autograd.grad); the Jacobian matrix is built row by row as L(e_r) by the Jac transform (C15 `jac.rows`).")
T("linear_agg_eq_vjp", ["C05"],
  "If row r of J is L(e_r), then aggregating J with fixed weights w equals L(w): Sum/Mean/Constant aggregation coincides with one autograd backward of the weighted sum of losses.",
  "hJ: C15 contract of `Jac` (row r of the Jacobian is the VJP with the r-th basis cotangent); w constant: C09.const.<W> (weights of Sum/Mean/Constant ignore J).")
T("vecMul_diagonal_mul", ["C09", "C18"],
  "w ᵥ* (diag(c) J) = (w∘c) ᵥ* J: scaling rows of J is the same as scaling the weights.", PURE)
T("lin_const_add", ["C09"], "c ↦ w ᵥ* (diag(c) J) is additive in c.", PURE)
T("lin_const_smul", ["C09"], "c ↦ w ᵥ* (diag(c) J) is homogeneous in c.", PURE)
T("lin_const", ["C09"],
  "With weights w that do not depend on J, A(diag(c) J) = Σ_i (w_i c_i) g_i: linear in c.",
  "w independent of J: C09.const.<W> (Mean/Sum/Constant/Random weights ignore the matrix).")
H("vecMul_eq_sum_rows", ["C08"], "w ᵥ* J is the weighted sum of the rows of J.")

# ---------------- Gram.lean
T("gramAgg_orthogonal", ["C08"],
  "If weights depend on J only through J Jᵀ then A(J Q) = A(J) Q for orthogonal Q.",
  "Shape `gramAgg f`: NF-1 clause of every _WeightedAggregator whose weighting reads only `matrix @ matrix.T` (C08.gram.<W>); `combine` = `weights @ matrix`.")
H("gram_mul_orthogonal", ["C08"], "(J Q)(J Q)ᵀ = J Jᵀ when Q Qᵀ = 1 (Q may be rectangular).")
T("gramAgg_isometry", ["C08"],
  "Rectangular version of gramAgg_orthogonal: isometric embedding Q (Q Qᵀ = 1) of parameter space.",
  "Same as gramAgg_orthogonal.")
T("gramAgg_perm_invariant", ["C10"],
  "If the weighting is permutation-equivariant in the Gramian, the aggregation is invariant under permuting the rows of J.",
  "hf: per-weighting equivariance clause C10.equiv.<W> (for UPGrad/DualProj it is discharged by qpmin_perm_unique; for Mean/Sum trivially).")
T("gramAgg_homogeneous", ["C09", "C11"],
  "If the weighting ignores the scale t² of the Gramian, A(t J) = t A(J).",
  "hf: scale-invariance clause C11.scale.<W> of the weighting (e.g. normalised Gramian above the norm_eps threshold).")
H("gram_col_reindex", ["C08"], "Re-indexing (permuting) the columns of J leaves J Jᵀ unchanged.")
T("gramAgg_col_perm", ["C08"],
  "Permuting the columns (parameters) of J permutes the output in the same way.",
  "Shape `gramAgg f` (C08.gram.<W>).")
H("gram_fromCols_zero", ["C08"], "Appending zero columns leaves J Jᵀ unchanged.")
T("gramAgg_zero_cols", ["C08"],
  "Appending zero columns to J: the output is the old output followed by zeros.",
  "Shape `gramAgg f` (C08.gram.<W>).")
T("gramAgg_mem_rowSpan", ["C08"],
  "Every weighted aggregation lies in the span of the rows of J.",
  "`_WeightedAggregator.combine` returns `weights @ matrix` (C08.combine.post).")

# ---------------- QP.lean
H("dotProduct_mulVec_symm", ["C03"], "x·Gy = y·Gx for symmetric G.")
H("quad_add", ["C03"], "Q(w+d) = Q(w) + 2 d·Gw + Q(d) for symmetric G.")
H("quad_step", ["C03"], "Value of the quadratic form after a step t along e_i.")
T("qp_min_Gw_nonneg", ["C04", "C03"],
  "At a minimiser w of min vᵀGv s.t. u ≤ v (G symmetric), G w ≥ 0 componentwise.",
  "h: C03.projw.post + [T] solve_qp returns an exact minimiser, translated by qpgen_to_qpmin; hG: Gramian is symmetric (regGram_isSymm).")
T("qp_min_compl_slack", ["C03"],
  "Complementary slackness at a minimiser: (Gw)_i (w_i − u_i) = 0.",
  "Same as qp_min_Gw_nonneg.")
T("qpmin_of_kkt", ["C03"],
  "For symmetric PSD G the KKT conditions (u ≤ w, Gw ≥ 0, complementary slackness) imply w is a minimiser — justifies the KKT-residual oracle of the bounded campaign.",
  "hpsd: G = RNG(J,…) is PSD (gram_quad_nonneg / regGram_posDef); the three KKT hypotheses are what the run-time oracle C03.kkt measures.")
T("qpmin_iff_kkt", ["C03"],
  "For symmetric PSD G: IsQPMin G u w ⇔ KKT system.",
  "Same as qpmin_of_kkt.")
H("qpmin_variational", ["C03"], "Variational inequality (v − w)·Gw ≥ 0 for every feasible v at a minimiser w.")
T("qpmin_unique", ["C03", "C10"],
  "If G is symmetric positive definite the QP has at most one minimiser.",
  "hpd: regGram_posDef (reg_eps > 0) — RNG(J, norm_eps, reg_eps) is positive definite.")
T("qpmin_unique_posDef", ["C03"], "qpmin_unique stated with Mathlib's Matrix.PosDef.", "Same as qpmin_unique.")
T("qpmin_nonconflict", ["C03", "C04"],
  "If G u ≥ 0 componentwise (no conflict) and G is symmetric PSD then u itself solves the QP.",
  "hu: holds when all entries of G are ≥ 0 and u ≥ 0 (mulVec_nonneg_of_nonneg); u ≥ 0 from _check_pref_vector / mean weighting (C03.pref.post).")
H("mulVec_nonneg_of_nonneg", ["C03", "C18"], "Entrywise non-negative G and u ≥ 0 give G u ≥ 0.")
T("qpmin_nonconflict_eq", ["C03"],
  "No conflict and positive definite G: every minimiser equals u (the projection does nothing).",
  "As qpmin_nonconflict plus regGram_posDef.")
T("small_sigma", ["C03"],
  "G = reg·I with reg > 0: max(u,0) (componentwise) is a minimiser.",
  "G = reg·I: small-σ branch of _compute_normalized_gramian (σ_max < norm_eps ⇒ zeros) + _regularize (C03.ng.post, C03.rng.post; svd_gram_zero).")
T("small_sigma_unique", ["C03"], "G = reg·I: the minimiser is exactly max(u,0).", "Same as small_sigma.")
T("small_sigma_nonneg", ["C03"],
  "G = reg·I and u ≥ 0: the solver output is w = u.",
  "Same as small_sigma; u ≥ 0 from C03.pref.post.")
T("qpgen_to_qpmin", ["C03"],
  "solve_qp(P=G, q=0, A=−I, h=−u) (min ½xᵀPx+qᵀx s.t. Ax ≤ h) has exactly the minimisers of IsQPMin G u.",
  "C03.qp.args: the argument tuple of `solve_qp(G, np.zeros(m), -np.eye(m), -u)` in _project_weight_vector; [T] qpsolvers.solve_qp semantics.")
H("qpgen_feasible_iff", ["C03"], "Feasible sets of the generic QP and of IsQPMin coincide.")
H("quad_submatrix", ["C10"], "The quadratic form is invariant under simultaneous permutation of G and w.")
T("qpmin_perm", ["C10"],
  "IsQPMin (G.submatrix σ σ) (u∘σ) (w∘σ) ⇔ IsQPMin G u w.",
  "Permuting rows of J permutes its Gramian by submatrix σ σ (gramAgg_perm_invariant.hG) and the preference vector by ∘σ (C10.pref).")
T("qpmin_perm_unique", ["C10"],
  "With positive definite G the QP solution of the permuted problem is the permuted solution: discharges hf of gramAgg_perm_invariant for DualProj/UPGrad.",
  "hpd: regGram_posDef (reg_eps > 0); h, h': C03.projw.post for J and for the row-permuted J.")

# ---------------- UPGrad.lean
H("gram_mulVec", ["C04"], "(J Jᵀ) w = J (Jᵀ w).")
H("mulVec_apply_row", ["C04"], "(J x)_i is the inner product of row i with x.")
H("regGram_isSymm", ["C03"], "c·J Jᵀ + reg·I is symmetric.")
H("gram_quad_nonneg", ["C03"], "dᵀ (J Jᵀ) d = ‖Jᵀd‖² ≥ 0.")
T("regGram_posDef", ["C03"],
  "c·J Jᵀ + reg·I is positive definite for c ≥ 0, reg > 0.",
  "reg = reg_eps > 0 (constructor argument as passed, C03.rng.post); c = 1/σ_max² or 0.")
T("upgrad_allowance", ["C04"],
  "G = J Jᵀ/s² + reg·I and (Gw)_i ≥ 0 imply ⟨g_i, Jᵀw⟩ ≥ −reg·s²·w_i.",
  "G: C03.rng.post + svd_gram (s = σ_max ≥ norm_eps > 0); h: qp_min_Gw_nonneg.")
T("dualproj_allowance", ["C04"],
  "DualProj: a QP minimiser for the regularised normalised Gramian satisfies the non-conflict inequality up to reg·s²·w_i.",
  "h: C03.dualproj.post (weights satisfy IsQPMin(RNG(J,norm_eps,reg_eps), u, w)).")
T("upgrad_sum_allowance", ["C04"],
  "UPGrad: W = Σ_k w^(k), each w^(k) a QP minimiser, gives ⟨g_i, JᵀW⟩ ≥ −reg·s²·W_i.",
  "h: C03.upgrad.post (`U = diag(u)`, row-wise IsQPMin via apply_along_axis, `torch.sum(W, dim=0)`).")
T("upgrad_exact_nonconflict", ["C04"],
  "With reg = 0 and G = J Jᵀ the UPGrad aggregation has non-negative inner product with every row.",
  "Idealised reg_eps = 0 version of C03.upgrad.post.")
T("svd_gram", ["C03"],
  "J = U diag(S) Vᵀ with VᵀV = 1, σ ≠ 0 ⇒ U diag((S/σ)²) Uᵀ = σ⁻²·J Jᵀ.",
  "[T] torch.linalg.svd(full_matrices=False) post-condition (J = U S Vᵀ, VᵀV = I); C03.ng.post: result = U diag((S/max S)²) Uᵀ.")
T("svd_gram_zero", ["C03"],
  "Small-σ branch: scaled singular values all zero ⇒ regularised Gramian = reg·I.",
  "C03.ng.post (branch `max_singular_value < eps` ⇒ zeros_like) + C03.rng.post.")

# ---------------- Robust.lean
H("trimWindow_card", ["C16"], "The window b ≤ j < m−b contains m−2b indices.")
H("mean_mem_Icc", ["C16"], "The mean of a non-empty family of reals in [lo,hi] lies in [lo,hi].")
T("trimmed_mean_bounds", ["C16"],
  "For a sorted column a_0 ≤ … ≤ a_{m−1} and m ≥ 2b+1, the trimmed mean lies in [a_b, a_{m−b−1}].",
  "ha: [T] torch.sort(dim=0) returns a non-decreasing column; window: torch.narrow(start=trim_number, length=m−2·trim_number) then mean(dim=0) (C16.tm.post); hb: _check_matrix_has_enough_rows.")
T("order_stat_mem_Icc", ["C16"],
  "If at least m−b entries of a sorted column lie in [lo,hi], every order statistic of rank in [b, m−b) lies in [lo,hi].",
  "hcount: the honest-majority assumption of the property statement (at most b Byzantine rows).")
T("trimmed_mean_robust", ["C16"],
  "At most b outliers ⇒ the trimmed mean lies in the range [lo,hi] of the honest values.",
  "As trimmed_mean_bounds + order_stat_mem_Icc.")
T("trimmed_mean_robust_of_perm", ["C16"],
  "Same, counting on the unsorted column x, for any sorting permutation σ (sorted = x∘σ).",
  "hsorted + σ: [T] torch.sort returns a sorted permutation of the input column.")
T("bottomK_sum_le", ["C16"],
  "A bottom-k index set (no excluded index has a smaller value) has minimal sum among all k-subsets: 'sum of the k smallest' is well defined despite ties.",
  "IsBottomK: [T] torch.topk(largest=False) post-condition.")
T("self_distance_first", ["C16"],
  "Krum: for a row d of the distance matrix (d_i = 0, d ≥ 0), dropping the first (zero) element of the q+1 smallest distances and summing equals the sum of the q smallest distances to the other rows.",
  "hdi, hd: [T] torch.cdist (zero diagonal, non-negative); hS: topk(k=n_closest+1, largest=False); j₀/hmin: `smallest_distances[:, 1:]` drops the smallest returned value (C16.krum.score).")

# ---------------- Impartial.lean
T("imtlg_equal_proj", ["C17"],
  "IMTL-G: if (J Jᵀ) v = d and Σv ≠ 0, w = v/Σv sums to 1 and ⟨g_i, Jᵀw⟩ = d_i/Σv; with d_i = ‖g_i‖ all projections onto the row directions are equal.",
  "hv: v = pinv(J Jᵀ) d with J Jᵀ invertible (C17.imtlg.post); hsum: the guard `v_sum.abs() > 1e-12·…` branch; d = torch.linalg.norm(matrix, dim=1).")
T("imtlg_equal_proj_inv", ["C17"], "Version with the matrix inverse of an invertible Gramian.", "Same as imtlg_equal_proj; [T] pinv = inverse for invertible matrices.")
T("imtlg_equal_proj_ratio", ["C17"], "⟨g_i, x⟩/d_i is the same for all rows with d_i ≠ 0.", "Same as imtlg_equal_proj.")
T("config_equal_cos", ["C17"],
  "ConFIG: U P = 1 ⇒ U (P w) = w, i.e. ⟨û_i, x⟩ = w_i for x = pinv(U) w (equal cosines for w = 1).",
  "hUP: [T] pinv of a full-row-rank matrix is a right inverse; U = units (C17.config.units), x = best_direction.")
T("config_row_inner", ["C17"], "⟨g_i, x⟩ = ‖g_i‖·w_i for J = diag(n) U.", "As config_equal_cos; J = diag(norms)·units.")
T("config_out_cos", ["C17"], "The returned vector ℓ·x/r satisfies U·out = (ℓ/r)·w.", "As config_equal_cos; out = length * unit_target_vector (C17.config.post).")
T("config_length", ["C17"], "The length Σ_i ⟨g_i, û⟩ equals ⟨Σ_i g_i, û⟩: out is the projection of the sum gradient on û.", "C17.config.post (`torch.sum(torch.stack([torch.dot(grad, u) …]))`).")
T("amtl_gram", ["C17"],
  "Aligned-MTL (possibly rank-deficient): J Jᵀ = V diag(λ) Vᵀ, VᵀV = 1, λ > 0, B = √l·V diag(1/√λ) Vᵀ ⇒ (B J)(B J)ᵀ = l·V Vᵀ.",
  "hM, hV: [T] torch.linalg.eigh post-condition restricted to the kept (rank) eigenpairs; B: C17.amtl.balance.post.")
T("amtl_orthogonal", ["C17"],
  "Aligned-MTL, full rank: the balanced matrix R = B J has R Rᵀ = λ_min·I (orthogonal rows of equal norm).",
  "As amtl_gram with rank = m (V square orthogonal).")
T("amtl_output", ["C17"], "The weights α = B w give Jᵀα = (B J)ᵀ w for symmetric B.", "C17.amtl.post (`alpha = B @ w`).")

# ---------------- Definitions.lean
H("dotProduct_self_nonneg'", ["C18"], "x·x ≥ 0.")
H("l2norm_nonneg", ["C18"], "‖x‖₂ ≥ 0.")
H("l2norm_sq", ["C18"], "‖x‖₂² = x·x.")
H("l2norm_smul", ["C18"], "‖t x‖₂ = |t| ‖x‖₂.")
H("vecMul_dotProduct_self", ["C18", "C04"], "‖Jᵀw‖² = wᵀ(J Jᵀ)w.")
H("abs_dotProduct_le", ["C04"], "Cauchy–Schwarz: |x·y| ≤ ‖x‖₂‖y‖₂.")
T("cagrad_distance", ["C18"],
  "CAGrad: out = (u + t w)ᵀJ with t = c‖g₀‖/‖g_w‖ is at distance exactly c‖g₀‖ from g₀ = uᵀJ.",
  "C04.cagrad.post: weights = 1/m + (√φ/‖g_w‖)·w_opt in the branch g_w_norm ≥ norm_eps; √φ = c‖g₀‖ (norms in reduced space, cagrad_ratio_gram).")
T("cagrad_c_zero", ["C18"], "CAGrad with c = 0 returns the mean.", "C04.cagrad.post with c = 0.")
T("cagrad_ratio_gram", ["C18"], "The ratio ‖g₀‖/‖g_w‖ can be computed from any positive multiple of the Gramian.", "C04.cagrad.problem: reduced_matrix R with R Rᵀ = NG(J, norm_eps) = J Jᵀ/σ².")
H("sum_exp_pos", ["C18"], "Σ exp(x_j) > 0.")
T("softmax_pos", ["C18"], "softmax(x)_i > 0.", "[T] F.softmax definition.")
T("softmax_sum", ["C18"], "Σ_i softmax(x)_i = 1.", "[T] F.softmax definition.")
T("softmax_simplex", ["C18"], "softmax(x) lies on the probability simplex (Random weighting).", "C18.random.post (`F.softmax(torch.randn(m))`).")
T("fwGamma_mem_Icc", ["C18", "C04"], "The Frank–Wolfe step size chosen by the Python code lies in [0,1].", "fwGamma transcribes the if/elif/else of _frank_wolfe_solver (C04.mgda.inv).")
T("fwGamma_optimal", ["C18", "C04"], "The step size is the exact minimiser over [0,1] of ‖(1−δ)x+δe‖², given ‖x−e‖² ≥ 0.", "As fwGamma_mem_Icc; a = αᵀGe_t, b = αᵀGα, c = e_tᵀGe_t.")
T("fwGamma_descent", ["C18", "C04"], "‖(1−γ)x+γe‖² ≤ ‖x‖².", "As fwGamma_optimal.")
H("quad_segment", ["C18"], "Q((1−δ)α+δe) expressed with a, b, c.")
T("mgda_step_descent", ["C18", "C04"],
  "One MGDA iteration: γ ∈ [0,1], the new aggregate norm is minimal on the segment [α, e], hence not larger than before.",
  "C04.mgda.inv (loop body of _frank_wolfe_solver with gramian = J Jᵀ).")
T("simplex_segment", ["C18", "C04"], "(1−γ)α+γe stays on the simplex for γ ∈ [0,1].", "C04.mgda.inv.")
H("simplex_single", ["C18"], "A basis vector e_i is on the simplex.")
T("pcStep_no_conflict", ["C18"], "Entrywise non-negative Gramian and non-negative weights: the PCGrad update is the identity.", "pcStep transcribes the inner-loop body of _PCGradWeighting.forward (C18.pcgrad.step).")
T("pcgrad_inner_no_conflict", ["C18"], "Without conflicts the inner loop leaves e_i unchanged, for any visiting order.", "C18.pcgrad.step; `order` = torch.randperm (any permutation).")
T("pcgrad_no_conflict", ["C18"], "PCGrad without any conflicting pair returns the sum of the rows.", "C18.pcgrad.post (weights = Σ_i current_weights⁽ⁱ⁾).")
T("pcStep_orthogonal", ["C18"], "When the update fires, the new combination is orthogonal to row j: (G cw')_j = 0.", "C18.pcgrad.step.")
T("pcStep_other", ["C18"], "The update only changes coordinate j.", "C18.pcgrad.step.")
H("hull_min_inner", ["C04"], "First-order optimality of the min-norm point x* of the hull: ⟨y, x*⟩ ≥ ‖x*‖² for all y in the hull.")
T("hull_allowance", ["C04"],
  "MGDA: x in the convex hull of the rows, x* the min-norm point, ‖g_i‖ ≤ s ⇒ ⟨g_i, x⟩ ≥ −s·√(‖x‖²−‖x*‖²).",
  "hα: C04.mgda.inv (α on the simplex); s: max row norm; β/hmin: definition of the exact MGDA solution.")

# ---------------- Stretch.lean
T("qpmin_gram_scaling", ["C09", "C11"], "IsQPMin (k·G) u w ⇔ IsQPMin G u w for k > 0.", "k = 1/σ_max² (normalisation) with reg_eps = 0.")
T("qpmin_pos_homogeneous", ["C09"], "IsQPMin G (t·u) (t·w) ⇔ IsQPMin G u w for t > 0.", PURE)
T("qpmin_row_scaling", ["C09"], "Row scaling J' = diag(c)J, c > 0: w' solves the QP for (G', u') iff c∘w' solves it for (G, c∘u').", "G' = diag(c) G diag(c) is the Gramian of diag(c) J; reg_eps = 0 (idealised).")
T("row_scaling_output", ["C09"], "w ᵥ* (diag(c) J) = (c∘w) ᵥ* J.", PURE)
T("qpmin_is_projection", ["C03"],
  "If w solves the QP for G = J Jᵀ then Jᵀw is the Euclidean projection of Jᵀu onto the dual cone {z | Jz ≥ 0} (Prop. 1 of the Jacobian-descent paper).",
  "h: C03.projw.post with reg_eps = 0, norm scaling removed by qpmin_gram_scaling.")
T("fw_rate_scalar", ["C04"], "h₀ ≤ C and h_{k+1} ≤ (1−δ)h_k + (C/2)δ² for all δ∈[0,1] imply h_k ≤ 2C/(k+2).", PURE, kind="helper")
H("gram_entry_abs_le", ["C04"], "|G_ij| ≤ s² when all rows have norm ≤ s.")
H("simplex_dot_abs_le", ["C04"], "A convex combination of numbers bounded by M is bounded by M.")
H("simplex_dot_ge", ["C04"], "A convex combination is at least the minimum.")
H("gram_bilin_simplex_abs_le", ["C04"], "|βᵀGα| ≤ s² on the simplex.")
T("fw_step_recurrence", ["C04"], "One exact-line-search Frank–Wolfe step: h(α') ≤ (1−δ)h(α) + 2s²δ² for every δ∈[0,1].", "hstep: IsFWStep transcribes one iteration of _frank_wolfe_solver (t = argmin Gα, γ = fwGamma) — C04.mgda.inv.")
T("fw_step_simplex", ["C04"], "A Frank–Wolfe step stays on the simplex.", "C04.mgda.inv.")
T("fw_rate", ["C04"],
  "MGDA's Frank–Wolfe iterates satisfy ½‖Jᵀα_k‖² − ½‖Jᵀβ‖² ≤ 8s²/(k+2) for every β on the simplex (Jaggi 2013, Thm 1, for this instance).",
  "hα0: α₀ = 1/m; hstep: C04.mgda.inv for every iteration (with epsilon = 0: no early exit, C04.mgda.iters).")
H("l2norm_add_smul_le", ["C04"], "‖a+tb‖ ≤ ‖a‖ + (2t⟨a,b⟩+t²‖b‖²)/(2‖a‖) for a ≠ 0.")
T("cagrad_dual", ["C04"],
  "CAGrad with c ≥ 1: at an exact minimiser w of the dual objective F over the simplex (g_w ≠ 0), the direction d = g₀ + (c‖g₀‖/‖g_w‖) g_w has ⟨g_i, d⟩ ≥ F(w) ≥ 0 for every row.",
  "hopt: C04.cagrad.problem ([T] cvxpy/CLARABEL returns an exact minimiser of F over the simplex); d: C04.cagrad.post.")

# ---------------- Scaling.lean
H("diag_conj_mulVec", ["C09"], "(D G D) v = c∘(G (c∘v)) for D = diag(c).")
T("pcStep_row_scaling", ["C09"],
  "Relational invariant of PCGrad's inner loop for J' = diag(c)J: c∘cw' = c_i·cw is preserved by one update (same branch of the conflict test, consistently rescaled correction).",
  "C09.pcgrad.rel (relational loop invariant: cw'[k]·c_k = c_i·cw[k], ip' = c_i c_j·ip).")
T("pcgrad_inner_row_scaling", ["C09"], "The relation is preserved by the whole inner loop for any visiting order.", "C09.pcgrad.rel; same `torch.randperm` draws in both runs (fixed seed).")
T("lin_pcgrad", ["C09"],
  "PCGrad(diag(c) J) = Σ_i c_i p_i(J) for c > 0 and identical visiting orders: linear in the row scales.",
  "C09.pcgrad.rel + C18.pcgrad.post (weights = Σ_i current_weights⁽ⁱ⁾, output = weights @ matrix).")
T("unit_row_scale_invariant", ["C09"], "(c g)/‖c g‖ = g/‖g‖ for c > 0 (both 0 when g = 0).", "C09.config.rel: `units = nan_to_num(matrix / matrix.norm(dim=1))` is invariant under positive row scaling.")
T("lin_config", ["C09"], "For a fixed unit target vector û, the ConFIG output on diag(c)J is Σ_i c_i ⟨g_i, û⟩ û: linear in c.", "C09.config.rel (unit_target_vector invariant), C17.config.post (length = Σ_i ⟨g_i, û⟩).")
T("config_cos_eq", ["C17"], "ConFIG: cos(û_i, x) = w_i/‖x‖ for unit rows and x = pinv(U) w; all equal for w = 1.", "hunit: rows of `units` have norm 1 (non-zero rows); hUP: [T] pinv of a full-row-rank matrix is a right inverse.")

json.dump(M, open(os.path.join(HERE, "theorems_meta.json"), "w", encoding="utf-8"), indent=1, ensure_ascii=False)
print(len(M), "entries")
