#!/usr/bin/env python3
"""Generate / check /verif/lean/theorems.json.

The *statement* of every theorem is extracted verbatim from the Lean sources
(TorchJDSpec/*.lean); the remaining fields (properties, informal,
hypotheses_from_contracts) come from tools/theorems_meta.json.

  python3 tools/gen_theorems.py            # rewrite theorems.json
  python3 tools/gen_theorems.py --check    # exit 1 if theorems.json is stale / incomplete

--check fails if
  * a theorem of the library is missing from the metadata (or vice versa),
  * a statement in theorems.json differs from the source text.
"""
import glob
import json
import os
import re
import sys

HERE = os.path.dirname(os.path.abspath(__file__))
ROOT = os.path.dirname(HERE)
NS = "TorchJDSpec"


def extract(path):
    """Yield (name, statement, context) for each top-level `theorem` in the file.

    `context` = the `open` / `variable` lines in scope (and an `omit … in` prefix, if any), which
    the statement text relies on for its implicit binders."""
    src = open(path, encoding="utf-8").read()
    lines = src.split("\n")
    i = 0
    ctx = []
    while i < len(lines):
        if re.match(r"^(open|variable)\b", lines[i]):
            ctx.append(lines[i].strip())
        m = re.match(r"^theorem\s+(\S+)", lines[i])
        if not m:
            i += 1
            continue
        # look back over the docstring for an `omit ... in`
        k = i - 1
        while k >= 0 and not re.match(r"^(theorem|def|noncomputable|end|namespace|variable|open)\b|^\s*$", lines[k]) \
                and not lines[k].startswith("omit"):
            k -= 1
        omit = [lines[k].strip()] if k >= 0 and lines[k].startswith("omit") else []
        name = m.group(1)
        buf = []
        j = i
        while j < len(lines):
            line = lines[j]
            # the statement ends at a line ending with `:= by` or `:=`
            m2 = re.match(r"^(.*?)\s*:=(\s*by)?\s*$", line)
            if m2:
                buf.append(m2.group(1))
                break
            if j > i and re.match(r"^(theorem|lemma|def|noncomputable|end|namespace)\b", line):
                raise SystemExit(f"{path}: statement of {name} runs into the next declaration "
                                 "(put the proof of one-line theorems on the next line)")
            buf.append(line)
            j += 1
        else:
            raise SystemExit(f"{path}: cannot find end of statement of {name}")
        stmt = "\n".join(buf).rstrip()
        yield name, stmt, "\n".join(ctx + omit)
        i = j + 1


def collect():
    out = []
    for path in sorted(glob.glob(os.path.join(ROOT, NS, "*.lean"))):
        rel = os.path.relpath(path, ROOT)
        for name, stmt, ctx in extract(path):
            out.append((name, rel, stmt, ctx))
    return out


def build():
    meta = json.load(open(os.path.join(HERE, "theorems_meta.json"), encoding="utf-8"))
    found = collect()
    names = [n for n, _, _, _ in found]
    dup = {n for n in names if names.count(n) > 1}
    errs = []
    if dup:
        errs.append(f"duplicate theorem names: {sorted(dup)}")
    missing = [n for n in names if n not in meta]
    extra = [n for n in meta if n not in names]
    if missing:
        errs.append(f"theorems without metadata in tools/theorems_meta.json: {missing}")
    if extra:
        errs.append(f"metadata for theorems that do not exist: {extra}")
    if errs:
        raise SystemExit("gen_theorems: " + "; ".join(errs))
    entries = []
    for name, rel, stmt, ctx in found:
        md = meta[name]
        entries.append(
            {
                "name": f"{NS}.{name}",
                "file": f"lean/{rel}",
                "properties": md["properties"],
                "statement": stmt,
                "context": "namespace TorchJDSpec\n" + ctx,
                "informal": md["informal"],
                "hypotheses_from_contracts": md["hypotheses_from_contracts"],
                "kind": md.get("kind", "bridge"),
            }
        )
    return entries


def main():
    entries = build()
    target = os.path.join(ROOT, "theorems.json")
    text = json.dumps(entries, indent=1, ensure_ascii=False) + "\n"
    if "--check" in sys.argv:
        try:
            cur = open(target, encoding="utf-8").read()
        except FileNotFoundError:
            raise SystemExit("gen_theorems: theorems.json missing")
        if cur != text:
            raise SystemExit("gen_theorems: theorems.json differs from sources + metadata")
        print(f"gen_theorems: theorems.json up to date ({len(entries)} theorems)")
    else:
        open(target, "w", encoding="utf-8").write(text)
        print(f"gen_theorems: wrote {len(entries)} theorems to theorems.json")


if __name__ == "__main__":
    main()
