import TorchJDSpec.Basic
import TorchJDSpec.Linear
import TorchJDSpec.Gram
import TorchJDSpec.QP
