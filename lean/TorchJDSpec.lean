import TorchJDSpec.Basic
import TorchJDSpec.Linear
import TorchJDSpec.Gram
import TorchJDSpec.QP
import TorchJDSpec.UPGrad
import TorchJDSpec.Robust
import TorchJDSpec.Impartial
